"""C13 - IP addresses, GUIDs and other sequence entities (partial: regex-language clauses + value dataflow).

On the patterns as the constant evaluator yields them, taken from the configuration classes the SequenceRecognizer
registrations wire (English and Chinese variants):

  IPv4   every maximal digit-only sub-pattern (the octet; position 1 and the repeated positions 2-4 are separate sub-trees)
         is anchor-free, every string of its language is 1-3 digits with value <= 255 (sound), the language contains
         "0".."255" (complete); with the octets abstracted to O the address language is {O.O.O.O}; the pattern begins and
         ends with a zero-width assertion.
  IPv6   every hextet sub-pattern is 1-4 characters of exactly the hex digits; with hextets abstracted to H the language
         over {H, ':'} equals the reference set derived here from the RFC 4291 text form (8 groups, or a "::" b with
         a + b <= 7) - both inclusions; every top-level alternative begins and ends with an assertion; upper-case digits
         are covered by the class or by IGNORECASE compilation.
  GUID   element = runs 8-4-4-4-12 or 32 over exactly [0-9a-f]; with the element abstracted every wrapper contains exactly one
         element and the plain and braced forms exist; upper case is covered (IGNORECASE compilation, model lower-casing, or
         the class itself).
  value  IP: resolution_str is produced only by drop_leading_zeros(text); the other sequence parsers set
         resolution_str := text; the models copy text and 'value' from the parse result; a model that filters on
         `data is not None` gets data propagated by its parser and non-None tags from its extractor.
"""
import ast

from .. import rx
from ..core import AnalysisError
from .c03 import (Ev, Unresolved, _strip_doc, dotted, extractor_closure, init_assignments, is_self_attr, method_params, reachable_methods,
                  registrations, slot, strip_safe_regexp)

LEVEL = 'other'
DESIGN_REF = 'DESIGN.md#c13'

META = {
    'text': 'Partial, regex language + dataflow: on the evaluated IPv4/IPv6/GUID patterns of the English and Chinese sequence '
            'configurations - the IPv4 octet sub-patterns (position 1 and positions 2-4 separately) accept only 1-3 digit strings '
            '<= 255 and all of "0".."255" (exhaustive enumeration), the address is O.O.O.O between assertions; hextets are 1-4 hex '
            'digits and the language over {H, :} equals the 37 shapes derived from RFC 4291 (both inclusions); the GUID element '
            'is 8-4-4-4-12 or 32 hex digits, each wrapper holds exactly one element, upper case is covered; the IP value is '
            'produced only by drop_leading_zeros(text), the other sequence values are the text, models copy text/value and '
            'data filters are fed.',
    'note': 'Not decided: span exactness under ordered alternation and the "::" boundary checks of BaseIpExtractor.extract '
            '(e.g. a ninth hextet is cut off, not rejected); the arithmetic of drop_leading_zeros; IPv4-mapped IPv6 text forms '
            '(not accepted today, outside "exploded or compressed form"); the e-mail / URL / phone / hashtag / mention grammars '
            '(no independent finite specification; of the URL grammar only C13.url.context: a match path exists for 9 URL '
            'forms in 11 carriers), TLD list, phone scoring; whether a CJK routing prefix shared by all getters is the right one. L+ treats look-arounds and \\b as always true, so '
            'the soundness inclusion for IPv6 shapes is over the over-approximated language (sufficient, not necessary).',
    'technique': 'finite regex-language enumeration and sub-pattern abstraction over the pattern syntax tree; symbolic '
                 'field dataflow through the parse methods',
}

SEQ_RECOGNIZER = 'recognizers_sequence.sequence.sequence_recognizer.SequenceRecognizer'
HEX = set('0123456789abcdef')
G = '\u00a7'      # symbol standing for one GUID element


def ipv6_reference():
    """text forms of RFC 4291 section 2.2 items 1 and 2 over the symbols H (1-4 hex digits) and ':':
    eight groups, or one '::' standing for one or more zero groups: a groups '::' b groups with a + b <= 7"""
    shapes = {':'.join(['H'] * 8)}
    for a in range(0, 8):
        for b in range(0, 8 - a):
            shapes.add(':'.join(['H'] * a) + '::' + ':'.join(['H'] * b))
    return shapes


def octet_reference():
    return {str(i).zfill(w) for i in range(256) for w in (1, 2, 3) if len(str(i)) <= w}


# ---- tree helpers ------------------------------------------------------------------------------------------

def digit_language(n):
    """finite language of n if it consists of non-empty digit strings only, else None"""
    try:
        lang = rx.enumerate_language(n, limit=5000)
    except rx.RxError:
        return None
    if lang and all(s and s.isdigit() and s.isascii() for s in lang):
        return lang
    return None


def maximal(n, pred):
    """maximal sub-trees satisfying pred (top-down, document order)"""
    if pred(n):
        return [n]
    out = []
    for x in (n.items or []):
        if isinstance(x, rx.Node):
            out.extend(maximal(x, pred))
    if n.node is not None:
        out.extend(maximal(n.node, pred))
    return out


def unwrap(n):
    while n.kind == 'group':
        n = n.node
    return n


def is_hextet(n):
    """a bounded repeat over a character class of alphanumerics (possibly wrapped in groups)"""
    m = unwrap(n)
    if m.kind != 'rep':
        return False
    inner = unwrap(m.node)
    if inner.kind not in ('class', 'cc', 'range'):
        return False
    try:
        chars = rx.class_chars(inner)
    except rx.RxError:
        return False
    return bool(chars) and all(c.isalnum() and c.isascii() for c in chars) and any(c.isalpha() for c in chars)


def nullable(n):
    k = n.kind
    if k in ('look', 'anchor', 'flags'):
        return True
    if k in ('lit', 'any', 'cc', 'class', 'range', 'sym', 'backref'):
        return False
    if k == 'seq':
        return all(nullable(x) for x in n.items)
    if k == 'alt':
        return any(nullable(x) for x in n.items)
    if k == 'group':
        return nullable(n.node)
    if k == 'rep':
        return n.lo == 0 or nullable(n.node)
    return True


def edge_asserted(n, first):
    """does every match of n begin (first) / end (not first) at a zero-width assertion?"""
    k = n.kind
    if k in ('anchor', 'look'):
        return True
    if k == 'group':
        return edge_asserted(n.node, first)
    if k == 'alt':
        return all(edge_asserted(a, first) for a in n.items)
    if k == 'rep':
        return n.lo >= 1 and edge_asserted(n.node, first)
    if k == 'seq':
        items = n.items if first else list(reversed(n.items))
        for it in items:
            if it.kind == 'flags':
                continue
            if edge_asserted(it, first):
                return True
            if not nullable(it):
                return False
        return False
    return False


def top_alternatives(n):
    m = n
    while m.kind == 'group':
        m = m.node
    return m.items if m.kind == 'alt' else [n]


def short(s, n=60):
    s = str(s)
    return s if len(s) <= n else s[:n] + '...'


def compiled_ignorecase(ev, flags):
    """flags description from the wiring ('default' -> RegExpUtility.get_safe_reg_exp's default; text of explicit flags)"""
    if flags == 'uncompiled':
        return False
    if flags == 'default':
        c = ev.idx.cls('recognizers_text.utilities.RegExpUtility')
        fn = c.methods.get('get_safe_reg_exp')
        if fn is None:
            raise AnalysisError('anchor vanished: RegExpUtility.get_safe_reg_exp')
        ps = fn.args.args
        defaults = dict(zip([p.arg for p in ps[len(ps) - len(fn.args.defaults):]], fn.args.defaults))
        d = defaults.get('flags')
        if d is None:
            return False
        flags = ast.unparse(d)
        # the function must pass its flags on to regex.compile
        passes = any(isinstance(n, ast.Call) and dotted(n.func) in ('regex.compile', 're.compile') and
                     any(k.arg == 'flags' and isinstance(k.value, ast.Name) and k.value.id == 'flags' for k in n.keywords)
                     or (isinstance(n, ast.Call) and dotted(n.func) in ('regex.compile', 're.compile') and len(n.args) > 1
                         and isinstance(n.args[1], ast.Name) and n.args[1].id == 'flags') for n in ast.walk(fn))
        if not passes:
            return False
    parts = [p.strip() for p in flags.replace('(', ' ').replace(')', ' ').split('|')]
    return any(p.split('.')[-1] in ('I', 'IGNORECASE') for p in parts)


# ---- dataflow through a parser's parse method ---------------------------------------------------------------

def parse_result_copies(ev):
    """fields ParseResult.__init__(source) copies from its argument"""
    c = ev.idx.cls('recognizers_text.parser.ParseResult')
    fn = c.methods.get('__init__')
    if fn is None:
        raise AnalysisError('anchor vanished: ParseResult.__init__')
    ps = method_params(fn)
    copied = set()
    if ps:
        for n in ast.walk(fn):
            if isinstance(n, ast.Assign) and is_self_attr(n.targets[0]) and isinstance(n.value, ast.Attribute) \
                    and isinstance(n.value.value, ast.Name) and n.value.value.id == ps[0] and n.value.attr == n.targets[0].attr:
                copied.add(n.targets[0].attr)
    return c, copied


def parse_fields(ev, pcls):
    """symbolic values of (text, data, resolution_str) of the object parse() returns, in terms of 'SRC.<field>'"""
    idx = ev.idx
    k, fn = idx.find_method(pcls, 'parse')
    if fn is None:
        raise AnalysisError('%s has no parse method' % pcls.name)
    ps = method_params(fn)
    if len(ps) != 1:
        raise AnalysisError('%s:%d %s.parse: expected one parameter' % (k.mod.rel, fn.lineno, k.name))
    src = ps[0]
    pr_cls, copied = parse_result_copies(ev)
    objs = {}       # local -> field dict

    def sym(e):
        if isinstance(e, ast.Attribute) and isinstance(e.value, ast.Name):
            if e.value.id == src:
                return 'SRC.' + e.attr
            if e.value.id in objs:
                return objs[e.value.id].get(e.attr, '<unset %s>' % e.attr)
        if isinstance(e, ast.Call) and is_self_attr(e.func) and len(e.args) == 1 and not e.keywords:
            return 'self.%s(%s)' % (e.func.attr, sym(e.args[0]))
        if isinstance(e, ast.Constant):
            return repr(e.value)
        return 'expr(%s)' % ast.unparse(e)

    ret = None
    for st in _strip_doc(fn.body):
        if isinstance(st, ast.Assign) and len(st.targets) == 1:
            tgt, v = st.targets[0], st.value
            if isinstance(tgt, ast.Name):
                if isinstance(v, ast.Call) and idx.resolve_class(k.mod, v.func) is pr_cls:
                    fields = {}
                    if len(v.args) == 1 and isinstance(v.args[0], ast.Name) and v.args[0].id == src:
                        for f in copied:
                            fields[f] = 'SRC.' + f
                    objs[tgt.id] = fields
                elif tgt.id in objs:
                    del objs[tgt.id]
                continue
            if isinstance(tgt, ast.Attribute) and isinstance(tgt.value, ast.Name) and tgt.value.id in objs:
                objs[tgt.value.id][tgt.attr] = sym(v)
                continue
            if isinstance(tgt, ast.Attribute) and isinstance(tgt.value, ast.Name) and tgt.value.id == src:
                raise AnalysisError('%s:%d %s.parse mutates its argument; dataflow not understood' % (k.mod.rel, st.lineno, k.name))
        elif isinstance(st, ast.Return):
            if isinstance(st.value, ast.Name) and st.value.id in objs:
                ret = objs[st.value.id]
            break
        elif isinstance(st, (ast.If, ast.For, ast.While, ast.Try, ast.With)):
            for n in ast.walk(st):
                if isinstance(n, ast.Attribute) and isinstance(n.ctx, ast.Store) and n.attr in ('text', 'data', 'resolution_str'):
                    raise AnalysisError('%s:%d %s.parse writes %s under control flow; dataflow not understood'
                                        % (k.mod.rel, n.lineno, k.name, n.attr))
    if ret is None:
        raise AnalysisError('%s:%d %s.parse does not return a ParseResult built in the method' % (k.mod.rel, fn.lineno, k.name))
    return k, fn, ret


def model_facts(ev, mcls):
    """(copies text, value source, filters on data) read from Model.parse / get_resolution through the MRO"""
    idx = ev.idx
    k, fn = idx.find_method(mcls, 'parse')
    if fn is None:
        raise AnalysisError('%s has no parse' % mcls.name)
    copies_text = resolution_from = None
    for n in ast.walk(fn):
        if isinstance(n, ast.Assign) and isinstance(n.targets[0], ast.Attribute):
            t, v = n.targets[0], n.value
            if t.attr == 'text' and isinstance(v, ast.Attribute) and v.attr == 'text' and isinstance(v.value, ast.Name):
                copies_text = v.value.id
            if t.attr == 'resolution' and isinstance(v, ast.Call) and is_self_attr(v.func, 'get_resolution') and len(v.args) == 1 \
                    and isinstance(v.args[0], ast.Name):
                resolution_from = v.args[0].id
    filters = any(isinstance(n, ast.Compare) and len(n.ops) == 1 and isinstance(n.ops[0], ast.IsNot)
                  and isinstance(n.left, ast.Attribute) and n.left.attr == 'data'
                  and isinstance(n.comparators[0], ast.Constant) and n.comparators[0].value is None for n in ast.walk(fn))
    preprocess = [n for n in ast.walk(fn) if isinstance(n, ast.Call) and dotted(n.func) == 'QueryProcessor.preprocess']
    gk, gfn = idx.find_method(mcls, 'get_resolution')
    value_src = None
    if gfn is not None:
        ps = [a.arg for a in gfn.args.args if a.arg not in ('self', 'cls')]
        for n in ast.walk(gfn):
            if isinstance(n, ast.Dict):
                for kk, vv in zip(n.keys, n.values):
                    if isinstance(kk, ast.Constant) and kk.value == 'value' and isinstance(vv, ast.Attribute) \
                            and isinstance(vv.value, ast.Name) and ps and vv.value.id == ps[0]:
                        value_src = vv.attr
    return {'cls': k, 'fn': fn, 'copies_text': copies_text, 'resolution_from': resolution_from, 'filters': filters,
            'value_src': value_src, 'preprocess': preprocess}


def preprocess_lowercases(ev, call):
    """QueryProcessor.preprocess(q[, case_sensitive]) lower-cases unless case_sensitive is passed truthy"""
    c = ev.idx.cls('recognizers_text.utilities.QueryProcessor')
    fn = c.methods.get('preprocess')
    if fn is None:
        return False
    ps = [a.arg for a in fn.args.args]
    flag = ps[1] if len(ps) > 1 else None
    passed = None
    if len(call.args) > 1:
        passed = call.args[1]
    for kw in call.keywords:
        if kw.arg == flag:
            passed = kw.value
    if passed is not None and not (isinstance(passed, ast.Constant) and not passed.value):
        return False
    if passed is None and flag is not None:
        d = fn.args.defaults
        defaults = dict(zip(ps[len(ps) - len(d):], d))
        if flag in defaults and not (isinstance(defaults[flag], ast.Constant) and not defaults[flag].value):
            return False
    for n in ast.walk(fn):
        if isinstance(n, ast.If) and isinstance(n.test, ast.UnaryOp) and isinstance(n.test.op, ast.Not) \
                and isinstance(n.test.operand, ast.Name) and n.test.operand.id == flag:
            return any(_lowers(c, s, 2) for s in n.body)
    return False


def _lowers(cls, node, depth):
    """does the statement call str.lower(), directly or through a helper method of the same class (depth-bounded)?"""
    for m in ast.walk(node):
        if isinstance(m, ast.Call) and isinstance(m.func, ast.Attribute):
            if m.func.attr == 'lower':
                return True
            if depth > 0 and isinstance(m.func.value, ast.Name) and m.func.value.id in (cls.name, 'self', 'cls') \
                    and m.func.attr in cls.methods:
                if any(_lowers(cls, st, depth - 1) for st in cls.methods[m.func.attr].body):
                    return True
    return False


# ---- run ---------------------------------------------------------------------------------------------------

def run(chk):
    chk.explanation = ('regex-language clauses on the evaluated IPv4 / IPv6 / GUID patterns (octet and hextet sub-languages, address '
                       'shapes against references derived in the checker, wrappers) and value dataflow through the sequence parsers '
                       'and models')
    chk.rule('C13.ipv4.octet.sound', 'every string of an octet sub-pattern is 1-3 digits with value <= 255', floor=2, control=True)
    chk.rule('C13.ipv4.octet.complete', 'an octet sub-pattern accepts "0".."255"', floor=2, control=True)
    chk.rule('C13.ipv4.shape', 'IPv4 address = O.O.O.O between zero-width assertions', floor=2, control=True)
    chk.rule('C13.ipv6.hextet', 'hextet = 1-4 characters of exactly the hex digits', floor=1, control=True)
    chk.rule('C13.ipv6.complete', 'every RFC 4291 shape (8 groups, a::b with a+b<=7) is in the pattern language', floor=30, control=True)
    chk.rule('C13.ipv6.sound', 'every shape of the pattern language is an RFC 4291 shape', floor=30, control=True)
    chk.rule('C13.ipv6.edges', 'every IPv6 alternative begins and ends at an assertion; upper-case hex digits are covered', floor=2, control=True)
    chk.rule('C13.guid.element', 'GUID element = 8-4-4-4-12 or 32 characters over exactly [0-9a-f]', floor=3, control=True)
    chk.rule('C13.guid.wrap', 'every GUID wrapper contains exactly one element; plain and braced forms exist', floor=4, control=True)
    chk.rule('C13.guid.case', 'upper-case GUIDs are covered (IGNORECASE, lower-casing model, or class)', floor=1, control=True)
    chk.rule('C13.guid.score', 'the GUID scorer locates the element anywhere in a decorated GUID text (not anchored at offset 0)', floor=1,
             control=True)
    chk.rule('C13.value.ip', 'the IP value is produced only by drop_leading_zeros(text)', floor=1, control=True)
    chk.rule('C13.value.text', 'sequence parsers set resolution_str := text', floor=4, control=True)
    chk.rule('C13.model', 'sequence models copy text and take \'value\' from resolution_str; data filters are fed', floor=6, control=True)

    ev = Ev()
    idx = ev.idx
    regs = registrations(ev, SEQ_RECOGNIZER)
    if len(regs) < 5:
        raise AnalysisError('SequenceRecognizer.initialize_configuration: only %d registrations found' % len(regs))
    chk.consulted(regs[0].mod.path)

    decoded = []
    for r in regs:
        p, e = r.args.get('parser'), r.args.get('extractor')
        if not (isinstance(p, ast.Call) and isinstance(e, ast.Call)):
            raise AnalysisError('%s:%d %s: model is not built from (parser(), extractor(...)) constructor calls' % (r.mod.rel, r.line, r.construct))
        pcls, ecls = idx.resolve_class(r.mod, p.func), idx.resolve_class(r.mod, e.func)
        if pcls is None or ecls is None:
            raise AnalysisError('%s:%d %s: parser / extractor class not resolvable' % (r.mod.rel, r.line, r.construct))
        ccls = None
        if e.args and isinstance(e.args[0], ast.Call):
            ccls = idx.resolve_class(r.mod, e.args[0].func)
        decoded.append((r, pcls, ecls, ccls))
        chk.consulted(pcls.mod.path)
        chk.consulted(ecls.mod.path)

    def of_model(name):
        out = [d for d in decoded if d[0].model_cls.name == name]
        if not out:
            raise AnalysisError('no %s registration found' % name)
        return out

    # ================= IP patterns ===========================================================================
    oct_ref = octet_reference()
    canon = {str(i) for i in range(256)}
    v6_ref = ipv6_reference()
    for r, pcls, ecls, ccls in of_model('IpAddressModel'):
        if ccls is None:
            raise AnalysisError('%s:%d %s: IP extractor is not built from a configuration object' % (r.mod.rel, r.line, r.construct))
        chk.consulted(ccls.mod.path)
        revals = extractor_closure(ev, ecls)
        slots = [rv for rv in revals if rv.kind == 'config']
        if len(slots) < 2:
            raise AnalysisError('%s: expected ReVal(self.config.<ipv4>, ..), ReVal(self.config.<ipv6>, ..)' % ecls.name)
        pats = {}
        for rv in slots:
            sl = slot(ev, ccls, rv.name)
            if not isinstance(sl.value, str):
                raise AnalysisError('%s:%d %s.%s does not evaluate to a pattern (%s)' % (sl.cls.mod.rel, sl.line, ccls.name, rv.name, sl.origin))
            _inner, fl, wrapped = strip_safe_regexp(sl.expr)
            pats[rv.tag] = (sl, 'uncompiled' if not wrapped else ('default' if fl is None else ast.unparse(fl)))
        const = idx.cls('recognizers_sequence.sequence.constants.Constants')
        t4, t6 = ev.class_const(const, 'IP_REGEX_IPV4'), ev.class_const(const, 'IP_REGEX_IPV6')
        if t4 not in pats or t6 not in pats:
            raise AnalysisError('%s: ReVal tags %s do not include the IPv4 / IPv6 tags' % (ecls.name, sorted(pats)))

        # ---- IPv4
        sl4, _fl4 = pats[t4]
        res_cls = idx.resolve_class(sl4.cls.mod, strip_safe_regexp(sl4.expr)[0].value) if isinstance(strip_safe_regexp(sl4.expr)[0], ast.Attribute) else None
        path4 = res_cls.mod.path if res_cls is not None else sl4.cls.mod.path
        chk.consulted(path4)
        name4 = '%s (%s)' % (sl4.origin, ccls.name)
        try:
            tree4 = rx.parse(sl4.value)
        except rx.RxError as e:
            raise AnalysisError('%s: IPv4 pattern not analysable: %s' % (name4, e))
        langs = {}

        def is_octet(n):
            lg = digit_language(n)
            if lg is not None:
                langs[id(n)] = lg
                return True
            return False
        octets = maximal(tree4, is_octet)
        if not octets:
            raise AnalysisError('%s: no digit-only sub-pattern found in the IPv4 pattern' % name4)
        for i, o in enumerate(octets):
            lg = langs[id(o)]
            construct = '%s octet sub-pattern #%d' % (name4, i + 1)
            if not rx.is_exact(o):
                raise AnalysisError('%s contains assertions; its language cannot be enumerated exactly' % construct)
            bad = sorted(s for s in lg if len(s) > 3 or int(s) > 255)
            chk.judge(not bad, 'C13.ipv4.octet.sound', path4, construct, '%d strings, max value %d' % (len(lg), max(int(s) for s in lg)),
                      '%s accepts %s, which is not an octet (value > 255 or more than 3 digits)' % (construct, short(bad[:8])), sl4.line)
            miss = sorted(canon - lg, key=int)
            chk.judge(not miss, 'C13.ipv4.octet.complete', path4, construct,
                      'canonical 0..255: %d of 256; zero-padded forms: %d of %d' % (256 - len(miss), len((oct_ref - canon) & lg), len(oct_ref - canon)),
                      '%s rejects the octet value(s) %s' % (construct, short(miss[:10])), sl4.line)
        ids = {id(o) for o in octets}
        shape = rx.substitute(tree4, lambda n: id(n) in ids, 'O')
        try:
            shapes = rx.enumerate_language(shape, limit=10000)
        except rx.RxError as e:
            raise AnalysisError('%s: address shape not enumerable: %s' % (name4, e))
        chk.judge(shapes == {'O.O.O.O'}, 'C13.ipv4.shape', path4, '%s address' % name4, 'shapes %s' % sorted(shapes)[:6],
                  '%s: with octets abstracted the pattern language is %s, expected exactly O.O.O.O' % (name4, short(sorted(shapes)[:6], 120)), sl4.line)
        ok_edges = edge_asserted(tree4, True) and edge_asserted(tree4, False)
        chk.judge(ok_edges, 'C13.ipv4.shape', path4, '%s boundaries' % name4, 'begins and ends with a zero-width assertion: %s' % ok_edges,
                  '%s does not begin and end with a boundary assertion: "256.1.1.1" would yield the address "56.1.1.1"' % name4, sl4.line)

        # ---- IPv6
        sl6, fl6 = pats[t6]
        name6 = '%s (%s)' % (sl6.origin, ccls.name)
        path6 = path4
        e6 = strip_safe_regexp(sl6.expr)[0]
        if isinstance(e6, ast.Attribute):
            rc6 = idx.resolve_class(sl6.cls.mod, e6.value)
            if rc6 is not None:
                path6 = rc6.mod.path
                chk.consulted(path6)
        try:
            tree6 = rx.parse(sl6.value)
        except rx.RxError as e:
            raise AnalysisError('%s: IPv6 pattern not analysable: %s' % (name6, e))
        hextets = maximal(tree6, is_hextet)
        if not hextets:
            raise AnalysisError('%s: no hextet sub-pattern found' % name6)
        forms = {}
        has_upper = True
        for h in hextets:
            m = unwrap(h)
            chars = rx.class_chars(unwrap(m.node))
            forms.setdefault((''.join(sorted(chars)), m.lo, m.hi), 0)
            forms[(''.join(sorted(chars)), m.lo, m.hi)] += 1
            has_upper = has_upper and set('ABCDEF') <= chars
        for (chars, lo, hi), cnt in sorted(forms.items(), key=str):
            good = {c.lower() for c in chars} == HEX and lo == 1 and hi == 4
            chk.judge(good, 'C13.ipv6.hextet', path6, '%s hextet' % name6, 'class [%s] {%s,%s} x%d' % (chars, lo, hi, cnt),
                      '%s: hextet sub-pattern is [%s]{%s,%s}; expected 1-4 characters of exactly the hex digits (missing %s, extra %s)'
                      % (name6, chars, lo, hi, ''.join(sorted(HEX - {c.lower() for c in chars})) or '-',
                         ''.join(sorted({c.lower() for c in chars} - HEX)) or '-'), sl6.line)
        hid = {id(h) for h in hextets}
        abstract = rx.substitute(tree6, lambda n: id(n) in hid, 'H')
        try:
            lang6 = rx.enumerate_language(abstract, limit=200000)
        except rx.RxError as e:
            raise AnalysisError('%s: shape language not enumerable: %s' % (name6, e))
        for s in sorted(v6_ref, key=lambda x: (len(x), x)):
            chk.judge(s in lang6, 'C13.ipv6.complete', path6, '%s shape %s' % (name6, s), 'in pattern language: %s' % (s in lang6),
                      '%s: the valid IPv6 text form %s (H = hextet) is not in the pattern language' % (name6, s), sl6.line)
        for s in sorted(lang6, key=lambda x: (len(x), x)):
            chk.judge(s in v6_ref, 'C13.ipv6.sound', path6, '%s shape %s' % (name6, short(s, 50)), 'is an RFC 4291 shape: %s' % (s in v6_ref),
                      '%s accepts the shape %s, which is not a valid IPv6 text form (8 groups, or a::b with a+b<=7)' % (name6, short(s, 80)), sl6.line)
        alts = top_alternatives(tree6)
        flat = []
        for a in alts:
            flat.extend(top_alternatives(a))
        bad_alt = [rx.unparse(a) for a in flat if not (edge_asserted(a, True) and edge_asserted(a, False))]
        chk.judge(not bad_alt, 'C13.ipv6.edges', path6, '%s boundaries' % name6, '%d alternatives, all between assertions: %s' % (len(flat), not bad_alt),
                  '%s: alternative %s does not begin and end with a boundary assertion' % (name6, short(bad_alt[:1], 100)), sl6.line)
        ci = compiled_ignorecase(ev, fl6)
        chk.judge(has_upper or ci, 'C13.ipv6.edges', path6, '%s upper case' % name6, 'class has A-F: %s; compiled IGNORECASE: %s' % (has_upper, ci),
                  '%s: upper-case hex digits are matched neither by the class nor by IGNORECASE compilation (flags %s)' % (name6, fl6), sl6.line)

    # ================= GUID ==================================================================================
    for r, pcls, ecls, ccls in of_model('GUIDModel'):
        revals = [rv for rv in extractor_closure(ev, ecls) if rv.kind == 'resource']
        if not revals:
            raise AnalysisError('%s: no evaluable GUID pattern wired' % ecls.name)
        for rv in revals:
            chk.consulted(rv.cls.mod.path)
            # element: the resource constant the parser scores with; located in the wired pattern by its syntax tree
            k_sc, sc = idx.find_method(pcls, 'score_guid')
            elem_src = None
            res_path = rv.cls.mod.path
            if sc is not None:
                scopes = [sc]
                # class attributes (possibly compiled) that score_guid reads through self.<attr>
                used = {n.attr for n in ast.walk(sc) if is_self_attr(n)}
                for kk in idx.mro(pcls):
                    for an, av in kk.attrs.items():
                        if an in used:
                            scopes.append(av)
                for scope in scopes:
                    for n in ast.walk(scope):
                        if isinstance(n, ast.Attribute) and isinstance(n.value, ast.Name):
                            c = idx.resolve_class(k_sc.mod, n.value)
                            if c is not None and 'GUID' in c.name.upper():
                                try:
                                    v = ev.class_const(c, n.attr)
                                except Unresolved:
                                    continue
                                if isinstance(v, str):
                                    elem_src, res_path = v, c.mod.path
            if elem_src is None:
                raise AnalysisError('GUID element pattern (used by %s.score_guid) not found' % pcls.name)
            chk.consulted(res_path)
            try:
                tree, etree = rx.parse(rv.pattern), rx.parse(elem_src)
            except rx.RxError as e:
                raise AnalysisError('%s: GUID pattern not analysable: %s' % (rv.name, e))
            classes = [n for n in rx.walk(etree) if n.kind in ('class', 'cc') and not _inside_class(etree, n)]
            if not classes:
                raise AnalysisError('%s: GUID element has no character class' % rv.name)
            class_upper = True
            bad_cls = []
            for cnode in classes:
                chars = rx.class_chars(cnode)
                if {c.lower() for c in chars} != HEX:
                    bad_cls.append((rx.unparse(cnode), ''.join(sorted(HEX - {c.lower() for c in chars})), ''.join(sorted({c.lower() for c in chars} - HEX))))
                class_upper = class_upper and set('ABCDEF') <= chars
            cid = {id(c) for c in classes}
            habs = rx.substitute(etree, lambda n: id(n) in cid, 'h')
            try:
                elang = rx.enumerate_language(habs, limit=1000)
            except rx.RxError as e:
                raise AnalysisError('%s: GUID element not enumerable: %s' % (rv.name, e))
            eref = {'-'.join('h' * k for k in (8, 4, 4, 4, 12)), 'h' * 32}
            chk.judge(not bad_cls, 'C13.guid.element', res_path, 'GUID element classes', '%d classes over [0-9a-f]' % len(classes),
                      'GUID element: class %s is not exactly the hex digits (missing %s, extra %s)' % (bad_cls[0] if bad_cls else ('', '', '')), rv.line)
            chk.judge(eref <= elang, 'C13.guid.element', res_path, 'GUID element layouts (complete)', 'layouts %s' % sorted(len(x) for x in elang),
                      'GUID element does not accept the layout(s) %s (h = hex digit)' % sorted(eref - elang), rv.line)
            chk.judge(elang <= eref, 'C13.guid.element', res_path, 'GUID element layouts (sound)', 'layouts %s' % sorted(len(x) for x in elang),
                      'GUID element accepts %s, which is neither 8-4-4-4-12 nor 32 hex digits' % short(sorted(elang - eref)[:3], 120), rv.line)
            eu = rx.unparse(etree)
            found = [n for n in rx.walk(tree) if rx.unparse(n) == eu or (n.kind == 'group' and rx.unparse(n.node) == eu)]
            if not found:
                raise AnalysisError('%s: the element pattern does not occur in the wired GUID pattern' % rv.name)
            # keep outermost occurrences only
            fid = set()
            outer = maximal(tree, lambda n: rx.unparse(n) == eu or (n.kind == 'group' and rx.unparse(n.node) == eu))
            fid = {id(n) for n in outer}
            wabs = rx.substitute(tree, lambda n: id(n) in fid, G)
            try:
                wlang = rx.enumerate_language(wabs, limit=1000, fold_case=True)
            except rx.RxError as e:
                raise AnalysisError('%s: wrapper language not enumerable: %s' % (rv.name, e))
            for w in sorted(wlang):
                chk.judge(w.count(G) == 1, 'C13.guid.wrap', rv.cls.mod.path, '%s wrapper %s' % (rv.name, w.replace(G, '<guid>')),
                          'elements: %d' % w.count(G),
                          '%s: wrapper form %r contains %d GUID elements instead of one' % (rv.name, w.replace(G, '<guid>'), w.count(G)), rv.line)
            for needed, what in ((G, 'plain'), ('{' + G + '}', 'braced')):
                chk.judge(needed in wlang, 'C13.guid.wrap', rv.cls.mod.path, '%s %s form' % (rv.name, what), 'present: %s' % (needed in wlang),
                          '%s: the %s GUID form %s is not in the pattern language' % (rv.name, what, needed.replace(G, '<guid>')), rv.line)
            ci = compiled_ignorecase(ev, rv.flags)
            mf = model_facts(ev, r.model_cls)
            lowers = any(preprocess_lowercases(ev, c) for c in mf['preprocess'])
            chk.judge(ci or lowers or class_upper, 'C13.guid.case', rv.cls.mod.path, '%s upper case' % rv.name,
                      'compiled IGNORECASE: %s; model lower-cases: %s; class has A-F: %s' % (ci, lowers, class_upper),
                      '%s: upper-case GUIDs are not covered (pattern compiled with flags %s, %s.parse does not lower-case, classes are '
                      'lower-case only)' % (rv.name, rv.flags, r.model_cls.name), rv.line)
            # scoring must find the element anywhere in the (possibly decorated) GUID text
            calls = guid_locating_calls(idx, pcls, k_sc, sc)
            if not calls:
                raise AnalysisError('%s.score_guid: the call that locates the GUID element was not recognised' % pcls.name)
            decorated = sorted(w.replace(G, '<guid>') for w in wlang if not w.startswith(G))
            for node, how in calls:
                anchored = how in ('match', 'fullmatch')
                chk.judge(not (anchored and decorated), 'C13.guid.score', k_sc.mod.path, '%s.score_guid: %s' % (pcls.name, ast.unparse(node.func)),
                          '%s; layouts with a prefix before the element: %s' % ('anchored at offset 0' if anchored else 'searches the whole text',
                                                                               decorated),
                          '%s.score_guid locates the GUID element with %s(), which only matches at offset 0, but the extractor pattern %s also '
                          'yields texts in which the element is preceded by a decoration (%s): match() returns None there, .group() raises '
                          'AttributeError and the model swallows it - the whole query returns nothing' % (pcls.name, how, rv.name, ', '.join(decorated)),
                          node.lineno)

    # ================= values ==================================================================================
    pr_cls, copied = parse_result_copies(ev)
    chk.consulted(pr_cls.mod.path)
    seen_parsers = set()
    for r, pcls, ecls, ccls in decoded:
        k, fn, fields = parse_fields(ev, pcls)
        chk.consulted(k.mod.path)
        mf = model_facts(ev, r.model_cls)
        chk.consulted(mf['cls'].mod.path)
        # model side
        good = mf['copies_text'] is not None and mf['copies_text'] == mf['resolution_from'] and mf['value_src'] == 'resolution_str'
        chk.judge(good, 'C13.model', mf['cls'].mod.path, '%s.parse/get_resolution (%s)' % (r.model_cls.name, r.construct),
                  "text <- %s.text; resolution <- get_resolution(%s); 'value' <- .%s" % (mf['copies_text'], mf['resolution_from'], mf['value_src']),
                  "%s does not copy text and 'value' (= resolution_str) from one parse result (text from %s, resolution from %s, 'value' from .%s)"
                  % (r.model_cls.name, mf['copies_text'], mf['resolution_from'], mf['value_src']), mf['fn'].lineno)
        if mf['filters']:
            tags = [rv.tag for rv in extractor_closure(ev, ecls)]
            fed = fields.get('data') == 'SRC.data' and tags and all(t is not None for t in tags)
            chk.judge(fed, 'C13.model', k.mod.path, '%s data filter (%s)' % (r.model_cls.name, r.construct),
                      'parser data = %s; %d extractor tags, none None: %s' % (fields.get('data'), len(tags), all(t is not None for t in tags)),
                      '%s drops results whose data is None, but %s.parse yields data = %s / the extractor tags are %s'
                      % (r.model_cls.name, pcls.name, fields.get('data'), short(tags, 80)), fn.lineno)
        if (pcls.qual, r.model_cls.name) in seen_parsers:
            continue
        seen_parsers.add((pcls.qual, r.model_cls.name))
        text, value = fields.get('text'), fields.get('resolution_str')
        construct = '%s.parse (via %s) for %s' % (pcls.name, k.name, r.model_cls.name)
        if r.model_cls.name == 'IpAddressModel':
            dk, dfn = idx.find_method(pcls, 'drop_leading_zeros')
            writers = []
            for kk, mfn in reachable_methods(idx, pcls, 'parse'):
                for n in ast.walk(mfn):
                    if isinstance(n, ast.Attribute) and isinstance(n.ctx, ast.Store) and n.attr == 'resolution_str':
                        writers.append('%s.%s' % (kk.name, mfn.name))
            good = value == 'self.drop_leading_zeros(SRC.text)' and dfn is not None and text == 'SRC.text' and len(writers) == 1
            chk.judge(good, 'C13.value.ip', k.mod.path, construct, 'text = %s; resolution_str = %s; writers %s' % (text, value, writers),
                      'the IP value is not produced by drop_leading_zeros(text) alone: resolution_str = %s (text = %s, writers of '
                      'resolution_str: %s)' % (value, text, writers), fn.lineno)
        else:
            chk.judge(text == 'SRC.text' and value == 'SRC.text', 'C13.value.text', k.mod.path, construct,
                      'text = %s; resolution_str = %s' % (text, value),
                      '%s: value is not the text: resolution_str = %s, text = %s' % (construct, value, text), fn.lineno)

    # ================= positive controls ================================================================================
    t = rx.parse('(1\\d{2}|2[0-5]\\d|25[0-5]|0?[1-9]\\d|0{0,2}\\d)')
    lg = digit_language(t)
    chk.control('C13.ipv4.octet.sound', lg is not None and any(int(s) > 255 for s in lg))
    lg = digit_language(rx.parse('(1\\d{2}|2[0-4]\\d|25[0-4]|0?[1-9]\\d|0{0,2}\\d)'))
    chk.control('C13.ipv4.octet.complete', lg is not None and '255' not in lg)
    t = rx.parse('(O)((\\.O){3})\\b')
    chk.control('C13.ipv4.shape', not edge_asserted(t, True) and edge_asserted(t, False))
    chk.control('C13.ipv6.hextet', is_hextet(rx.parse('([\\da-eA-E]{1,4})')) and set(c.lower() for c in rx.class_chars(rx.parse('[\\da-eA-E]'))) != HEX)
    l5 = rx.enumerate_language(rx.parse('(H:){1}((:H){1,5})'), limit=1000)
    chk.control('C13.ipv6.complete', 'H::H:H:H:H:H:H' in v6_ref and 'H::H:H:H:H:H:H' not in l5)
    l9 = rx.enumerate_language(rx.parse('(H:){8}H'), limit=1000)
    chk.control('C13.ipv6.sound', not (l9 <= v6_ref) and len(v6_ref) == 37)
    chk.control('C13.ipv6.edges', not edge_asserted(rx.parse('::\\B'), True))
    chk.control('C13.guid.element', {c for c in rx.class_chars(rx.parse('[a-e0-9]'))} != HEX)
    chk.control('C13.guid.wrap', ('{' + G + G + '}').count(G) != 1)
    chk.control('C13.guid.case', not compiled_ignorecase(ev, 'regex.S'))
    from ..index import Cls as _Cls
    _gm = idx.mod('recognizers_sequence.sequence.english.parsers')
    _ctl = _Cls(_gm, ast.parse("class GP:\n    guid_element_regex = re.compile(BaseGUID.GUIDRegexElement)\n    def score_guid(self, t):\n"
                               "        m = self.guid_element_regex.match(t)\n        return m.group()\n").body[0])
    chk.control('C13.guid.score', [h for _n, h in guid_locating_calls(idx, _ctl, _ctl, _ctl.methods['score_guid'])] == ['match'])
    from ..index import Cls
    pmod = idx.mod('recognizers_sequence.sequence.parsers')
    ctl = Cls(pmod, ast.parse("class P:\n    def parse(self, e):\n        r = ParseResult(e)\n        r.resolution_str = e.text\n"
                              "        return r\n").body[0])
    chk.control('C13.value.ip', parse_fields(ev, ctl)[2].get('resolution_str') != 'self.drop_leading_zeros(SRC.text)')
    ctl = Cls(pmod, ast.parse("class P:\n    def parse(self, e):\n        r = ParseResult(e)\n        r.resolution_str = e.type\n"
                              "        return r\n").body[0])
    chk.control('C13.value.text', parse_fields(ev, ctl)[2].get('resolution_str') != 'SRC.text')
    mmod = idx.mod('recognizers_sequence.sequence.models')
    ctl = Cls(mmod, ast.parse("class M:\n    def parse(self, q):\n        for p in self.x(q):\n            m = R()\n            m.text = p.text\n"
                              "            m.resolution = self.get_resolution(p)\n    def get_resolution(self, d):\n"
                              "        return {'value': d.text}\n").body[0])
    chk.control('C13.model', model_facts(ev, ctl)['value_src'] != 'resolution_str')
    chk.exhaustive = True


def guid_locating_calls(idx, pcls, k_sc, sc):
    """calls in score_guid that apply the GUID element pattern to the text -> [(call node, 'search'|'finditer'|'match'|...)]"""
    def mentions_guid(e):
        for n in ast.walk(e):
            if isinstance(n, ast.Attribute) and isinstance(n.value, ast.Name):
                c = idx.resolve_class(k_sc.mod, n.value)
                if c is not None and 'GUID' in c.name.upper():
                    return True
        return False
    pattern_names, pattern_attrs = set(), set()
    for kk in idx.mro(pcls):
        for an, av in kk.attrs.items():
            if mentions_guid(av):
                pattern_attrs.add(an)
    for n in ast.walk(sc):
        if isinstance(n, ast.Assign) and len(n.targets) == 1 and isinstance(n.targets[0], ast.Name):
            if mentions_guid(n.value) or (is_self_attr(n.value) and n.value.attr in pattern_attrs):
                pattern_names.add(n.targets[0].id)

    def is_pattern(e):
        return (isinstance(e, ast.Name) and e.id in pattern_names) or (is_self_attr(e) and e.attr in pattern_attrs) or \
            (isinstance(e, ast.Attribute) and mentions_guid(e)) or \
            (isinstance(e, ast.Call) and dotted(e.func) in ('re.compile', 'regex.compile') and e.args and is_pattern(e.args[0]))
    out = []
    methods = ('search', 'finditer', 'findall', 'match', 'fullmatch')
    for n in ast.walk(sc):
        if isinstance(n, ast.Call) and isinstance(n.func, ast.Attribute) and n.func.attr in methods:
            recv = n.func.value
            if is_pattern(recv):
                out.append((n, n.func.attr))
            elif isinstance(recv, ast.Name) and recv.id in ('re', 'regex') and n.args and is_pattern(n.args[0]):
                out.append((n, n.func.attr))
    return out


def _inside_class(root, node):
    """cc nodes that are items of a class node are reported through the class"""
    for n in rx.walk(root):
        if n.kind == 'class' and n is not node and any(it is node for it in (n.items or [])):
            return True
    return False



# ---------------------------------------------------------------------------------------------------------------
# generic rules (lead): cross-cutting necessary conditions scoped to the modules this property is anchored in
# (sa/generic.py: filter predicates depend on their element; regex group names read by the code exist)

def _generic_rules(chk):
    import re as _re_
    from ..index import get_index as _gi
    from ..consteval import Resources as _Res
    from .. import generic as _g
    idx_ = _gi()
    scope = _re_.compile('.')
    flt = lambda name: bool(scope.search(name.rsplit('.', 1)[-1]))
    _g.rule_group_names(chk, idx_, _Res(idx_), 'C13.groups', 'recognizers_sequence', None, floor=1)
    _g.rule_filter_predicates(chk, idx_, 'C13.filters', 'recognizers_sequence', floor=1)
    _g.rule_index_guards(chk, idx_, 'C13.index-guards', 'recognizers_sequence', floor=0)   # floor 0: C13.index-lower decides refactored guards
    _g.rule_kind_contradictions(chk, idx_, 'C13.offset-kinds', 'recognizers_sequence', floor=8)


_run_before_generic = run


def run(chk):       # noqa: F811
    _run_before_generic(chk)
    _generic_rules(chk)


# ---------------------------------------------------------------------------------------------------------------
# C13.value.canon: the canonicalisation itself.  drop_leading_zeros (and the same-class helpers it calls) is interpreted
# by a small interpreter over the AST - strings, ints, lists, for/while/if, whitelisted str/list methods, a few builtins -
# on a finite probe set of IPv4 / IPv6 texts.  Required of every output: same separators in the same order, same number
# of groups, each group denotes the same number as the input group (base 10 / 16), no leading zero unless the group is '0'.
# Equivalent formulations stay silent; anything the interpreter cannot read is an AnalysisError.

CANON_PROBES = ['192.168.001.010', '255.010.001.255', '000.000.000.000', '10.0.0.1', '1.2.3.4', '0.0.0.0', '01.02.03.04',
                '100.200.030.040', '010.100.000.200',
                'fe80:0000:0000:0000:0200:5eff:fe00:5300', '0db8::0042', '::', '1::', '::1', '0200::', '::0200:0',
                'ABCD:0ef0::1', '1:2:3:4:5:6:7:8', '001:0:00:000a::', '0000:0010:0100:1000:0001:00a0:0a00:a000']

_STR_OK = {'replace', 'rstrip', 'lstrip', 'strip', 'split', 'rsplit', 'join', 'upper', 'lower', 'startswith', 'endswith',
           'partition', 'rpartition', 'find', 'rfind', 'index', 'count', 'isdigit', 'isalpha', 'isalnum', 'zfill', 'rjust',
           'ljust', 'removeprefix', 'removesuffix', 'format'}
_LIST_OK = {'append', 'extend', 'pop', 'insert', 'reverse', 'index', 'count', 'copy'}


class _Ret(Exception):
    def __init__(self, v):
        self.v = v


class _Brk(Exception):
    pass


class _Cont(Exception):
    pass


class MiniInterp:
    """interpreter for the string-manipulating subset of Python the canonicaliser is written in"""

    def __init__(self, idx, cls, where):
        self.idx, self.cls, self.where = idx, cls, where
        self.budget = 200000

    def fail(self, n, what):
        raise AnalysisError('%s:%s not understood by the canonicalisation interpreter: %s'
                            % (self.where, getattr(n, 'lineno', '?'), what))

    def module_name(self, n):
        """a free name: a module-level constant of the module(s) the interpreted class lives in (plain / annotated assignment,
        also when imported from another indexed module); anything else fails closed"""
        cache = self.__dict__.setdefault('_modnames', {})
        if n.id in cache:
            if cache[n.id] is MiniInterp._BUSY:
                self.fail(n, 'cyclic module-level definition of ' + n.id)
            return cache[n.id]
        mods = []
        for k in [self.cls] + list(self.idx.mro(self.cls)):
            m = getattr(k, 'mod', None)
            if m is not None and m not in mods:
                mods.append(m)
        for m in mods:
            node = None
            r = self.idx.resolve(m, n.id)
            if r and r[0] == 'const':
                node = r[2]
            else:
                for st in m.tree.body:       # annotated module-level assignment (not in the index's table)
                    if isinstance(st, ast.AnnAssign) and isinstance(st.target, ast.Name) and st.target.id == n.id and st.value is not None:
                        node = st.value
            if node is not None:
                cache[n.id] = MiniInterp._BUSY
                try:
                    v = self.ev(node, {}, 0)
                finally:
                    cache.pop(n.id, None)
                cache[n.id] = v
                return v
        self.fail(n, 'name ' + n.id)

    _BUSY = object()

    def call(self, fn, args, depth=0):
        if depth > 6:
            self.fail(fn, 'helper recursion too deep')
        params = [a.arg for a in fn.args.args]
        if params and params[0] in ('self', 'cls'):
            params = params[1:]
        if fn.args.vararg or fn.args.kwarg or fn.args.kwonlyargs:
            self.fail(fn, 'parameter kinds of %s' % fn.name)
        defaults = fn.args.defaults
        env = {}
        for i, p in enumerate(params):
            if i < len(args):
                env[p] = args[i]
            else:
                j = i - (len(params) - len(defaults))
                if j < 0:
                    self.fail(fn, 'missing argument %s of %s' % (p, fn.name))
                env[p] = self.ev(defaults[j], {}, depth)
        try:
            self.run(fn.body, env, depth)
        except _Ret as r:
            return r.v
        return None

    def helper(self, f):
        """same-class helper: self.m / cls.m / ClassName.m"""
        if isinstance(f, ast.Attribute) and isinstance(f.value, ast.Name):
            names = {'self', 'cls'} | {k.name for k in self.idx.mro(self.cls)}
            if f.value.id in names:
                _k, fn = self.idx.find_method(self.cls, f.attr)
                return fn
        return None

    def run(self, stmts, env, depth):
        for st in _strip_doc(stmts):
            self.budget -= 1
            if self.budget < 0:
                self.fail(st, 'step budget exhausted (non-terminating loop?)')
            if isinstance(st, ast.Assign) and len(st.targets) == 1:
                self.assign(st.targets[0], self.ev(st.value, env, depth), env, depth)
            elif isinstance(st, ast.AnnAssign) and st.value is not None:
                self.assign(st.target, self.ev(st.value, env, depth), env, depth)
            elif isinstance(st, ast.AugAssign) and isinstance(st.target, ast.Name):
                cur = self.ev(st.target, env, depth)
                env[st.target.id] = self.binop(st, st.op, cur, self.ev(st.value, env, depth))
            elif isinstance(st, ast.If):
                self.run(st.body if self.ev(st.test, env, depth) else st.orelse, env, depth)
            elif isinstance(st, ast.For):
                it = self.ev(st.iter, env, depth)
                if not isinstance(it, (str, list, range)):
                    self.fail(st, 'loop over ' + ast.unparse(st.iter))
                broke = False
                for x in list(it):
                    self.assign(st.target, x, env, depth)
                    try:
                        self.run(st.body, env, depth)
                    except _Brk:
                        broke = True
                        break
                    except _Cont:
                        continue
                if not broke:
                    self.run(st.orelse, env, depth)
            elif isinstance(st, ast.While):
                while self.ev(st.test, env, depth):
                    self.budget -= 1
                    if self.budget < 0:
                        self.fail(st, 'step budget exhausted (non-terminating loop?)')
                    try:
                        self.run(st.body, env, depth)
                    except _Brk:
                        break
                    except _Cont:
                        continue
            elif isinstance(st, ast.Return):
                raise _Ret(self.ev(st.value, env, depth) if st.value is not None else None)
            elif isinstance(st, ast.Break):
                raise _Brk()
            elif isinstance(st, ast.Continue):
                raise _Cont()
            elif isinstance(st, ast.Pass):
                continue
            elif isinstance(st, ast.Expr):
                self.ev(st.value, env, depth)
            else:
                self.fail(st, 'statement ' + type(st).__name__)

    def assign(self, tgt, val, env, depth):
        if isinstance(tgt, ast.Name):
            env[tgt.id] = val
        elif isinstance(tgt, (ast.Tuple, ast.List)) and isinstance(val, (list, tuple)) and len(val) == len(tgt.elts):
            for t, v in zip(tgt.elts, val):
                self.assign(t, v, env, depth)
        elif isinstance(tgt, ast.Subscript) and not isinstance(tgt.slice, ast.Slice):
            base = self.ev(tgt.value, env, depth)
            if not isinstance(base, list):
                self.fail(tgt, 'store into ' + ast.unparse(tgt))
            try:
                base[self.ev(tgt.slice, env, depth)] = val
            except (IndexError, TypeError):
                self.fail(tgt, 'index error in ' + ast.unparse(tgt))
        else:
            self.fail(tgt, 'assignment target ' + ast.unparse(tgt))

    def binop(self, n, op, a, b):
        try:
            if isinstance(op, ast.Add) and type(a) is type(b) and isinstance(a, (str, list, int)) and not isinstance(a, bool):
                return a + b
            if isinstance(a, int) and isinstance(b, int) and not isinstance(a, bool) and not isinstance(b, bool):
                if isinstance(op, ast.Sub):
                    return a - b
                if isinstance(op, ast.Mult):
                    return a * b
                if isinstance(op, ast.FloorDiv) and b:
                    return a // b
                if isinstance(op, ast.Mod) and b:
                    return a % b
            if isinstance(op, ast.Mult) and isinstance(a, str) and isinstance(b, int):
                return a * min(b, 64)
        except TypeError:
            pass
        self.fail(n, 'operator in ' + ast.unparse(n)[:60])

    def ev(self, n, env, depth):
        self.budget -= 1
        if self.budget < 0:
            self.fail(n, 'step budget exhausted')
        if isinstance(n, ast.Constant):
            return n.value
        if isinstance(n, ast.Name):
            if n.id in env:
                return env[n.id]
            return self.module_name(n)
        if isinstance(n, (ast.List, ast.Tuple)):
            return [self.ev(e, env, depth) for e in n.elts]
        if isinstance(n, ast.JoinedStr):
            out = ''
            for p in n.values:
                if isinstance(p, ast.Constant):
                    out += str(p.value)
                elif isinstance(p, ast.FormattedValue) and p.conversion == -1 and p.format_spec is None:
                    v = self.ev(p.value, env, depth)
                    if not isinstance(v, (str, int)):
                        self.fail(n, 'f-string value')
                    out += str(v)
                else:
                    self.fail(n, 'format spec')
            return out
        if isinstance(n, ast.BinOp):
            return self.binop(n, n.op, self.ev(n.left, env, depth), self.ev(n.right, env, depth))
        if isinstance(n, ast.BoolOp):
            v = None
            for x in n.values:
                v = self.ev(x, env, depth)
                if isinstance(n.op, ast.And) and not v:
                    return v
                if isinstance(n.op, ast.Or) and v:
                    return v
            return v
        if isinstance(n, ast.UnaryOp):
            v = self.ev(n.operand, env, depth)
            if isinstance(n.op, ast.Not):
                return not v
            if isinstance(n.op, ast.USub) and isinstance(v, int):
                return -v
            self.fail(n, ast.unparse(n))
        if isinstance(n, ast.IfExp):
            return self.ev(n.body, env, depth) if self.ev(n.test, env, depth) else self.ev(n.orelse, env, depth)
        if isinstance(n, ast.Compare):
            left = self.ev(n.left, env, depth)
            for op, c in zip(n.ops, n.comparators):
                right = self.ev(c, env, depth)
                try:
                    if isinstance(op, ast.Eq):
                        r = left == right
                    elif isinstance(op, ast.NotEq):
                        r = left != right
                    elif isinstance(op, ast.In):
                        r = left in right
                    elif isinstance(op, ast.NotIn):
                        r = left not in right
                    elif isinstance(op, ast.Is):
                        r = left is right
                    elif isinstance(op, ast.IsNot):
                        r = left is not right
                    elif isinstance(op, ast.Lt):
                        r = left < right
                    elif isinstance(op, ast.LtE):
                        r = left <= right
                    elif isinstance(op, ast.Gt):
                        r = left > right
                    elif isinstance(op, ast.GtE):
                        r = left >= right
                    else:
                        self.fail(n, ast.unparse(n))
                except TypeError:
                    self.fail(n, 'comparison ' + ast.unparse(n))
                if not r:
                    return False
                left = right
            return True
        if isinstance(n, ast.Subscript):
            base = self.ev(n.value, env, depth)
            if not isinstance(base, (str, list)):
                self.fail(n, ast.unparse(n))
            try:
                if isinstance(n.slice, ast.Slice):
                    lo = self.ev(n.slice.lower, env, depth) if n.slice.lower is not None else None
                    hi = self.ev(n.slice.upper, env, depth) if n.slice.upper is not None else None
                    st = self.ev(n.slice.step, env, depth) if n.slice.step is not None else None
                    return base[lo:hi:st]
                return base[self.ev(n.slice, env, depth)]
            except (IndexError, TypeError, ValueError):
                self.fail(n, 'index error in ' + ast.unparse(n))
        if isinstance(n, (ast.ListComp, ast.GeneratorExp)):
            if len(n.generators) != 1 or n.generators[0].is_async:
                self.fail(n, 'comprehension shape')
            g = n.generators[0]
            it = self.ev(g.iter, env, depth)
            if not isinstance(it, (str, list, range)):
                self.fail(n, 'comprehension over ' + ast.unparse(g.iter))
            out = []
            inner = dict(env)
            for x in list(it):
                self.assign(g.target, x, inner, depth)
                if all(self.ev(c, inner, depth) for c in g.ifs):
                    out.append(self.ev(n.elt, inner, depth))
            return out
        if isinstance(n, ast.Call):
            return self.evcall(n, env, depth)
        self.fail(n, type(n).__name__)

    def evcall(self, n, env, depth):
        f = n.func
        if n.keywords:
            self.fail(n, 'keyword arguments in ' + ast.unparse(n)[:60])
        hf = self.helper(f)
        if hf is not None:
            return self.call(hf, [self.ev(a, env, depth) for a in n.args], depth + 1)
        args = [self.ev(a, env, depth) for a in n.args]
        if isinstance(f, ast.Name):
            try:
                if f.id == 'len' and len(args) == 1 and isinstance(args[0], (str, list, range)):
                    return len(args[0])
                if f.id == 'str' and len(args) == 1 and isinstance(args[0], (str, int)):
                    return str(args[0])
                if f.id == 'int' and 1 <= len(args) <= 2 and isinstance(args[0], (str, int)):
                    return int(*args)
                if f.id == 'range' and 1 <= len(args) <= 3 and all(isinstance(a, int) for a in args):
                    r = range(*args)
                    if len(r) > 10000:
                        self.fail(n, 'range too long')
                    return r
                if f.id == 'enumerate' and len(args) == 1 and isinstance(args[0], (str, list, range)):
                    return [[i, x] for i, x in enumerate(args[0])]
                if f.id in ('list', 'tuple') and len(args) <= 1:
                    return list(args[0]) if args else []
                if f.id == 'reversed' and len(args) == 1 and isinstance(args[0], (str, list, range)):
                    return list(reversed(args[0]))
                if f.id == 'zip' and all(isinstance(a, (str, list, range)) for a in args):
                    return [list(t) for t in zip(*args)]
                if f.id in ('min', 'max') and args and all(isinstance(a, int) for a in args):
                    return (min if f.id == 'min' else max)(args)
                if f.id == 'bool' and len(args) == 1:
                    return bool(args[0])
                if f.id == 'sum' and 1 <= len(args) <= 2 and isinstance(args[0], (list, range)):
                    total = args[1] if len(args) == 2 else 0
                    for x in args[0]:
                        total = self.binop(n, ast.Add(), total, x)
                    return total
                if f.id == 'abs' and len(args) == 1 and isinstance(args[0], int) and not isinstance(args[0], bool):
                    return abs(args[0])
                if f.id in ('any', 'all') and len(args) == 1 and isinstance(args[0], (list, range, str)):
                    return (any if f.id == 'any' else all)(bool(x) for x in args[0])
            except (TypeError, ValueError):
                self.fail(n, 'error evaluating ' + ast.unparse(n)[:60])
            self.fail(n, 'call ' + ast.unparse(n)[:60])
        if isinstance(f, ast.Attribute):
            if isinstance(f.value, ast.Name) and f.value.id == 'str' and f.attr in _STR_OK and args and isinstance(args[0], str):
                recv, args = args[0], args[1:]
            else:
                recv = self.ev(f.value, env, depth)
            try:
                if isinstance(recv, str) and f.attr in _STR_OK:
                    r = getattr(recv, f.attr)(*args)
                    return list(r) if isinstance(r, tuple) else r
                if isinstance(recv, list) and f.attr in _LIST_OK:
                    return getattr(recv, f.attr)(*args)
            except (TypeError, ValueError, IndexError):
                self.fail(n, 'error evaluating ' + ast.unparse(n)[:60])
        self.fail(n, 'call ' + ast.unparse(n)[:60])


def canon_verdict(text, out):
    """None when `out` is the canonical form of `text`, else what is wrong"""
    import re as _re
    if not isinstance(out, str):
        return 'is not a string'
    base = 10 if '.' in text else 16
    a, b = _re.split(r'([.:])', text), _re.split(r'([.:])', out)
    if a[1::2] != b[1::2] or len(a) != len(b):
        return 'has separators %s instead of %s' % (''.join(b[1::2]) or '-', ''.join(a[1::2]) or '-')
    for i, (ga, gb) in enumerate(zip(a[0::2], b[0::2])):
        if ga == '' or gb == '':
            if ga != gb:
                return 'group %d %r became %r' % (i + 1, ga, gb)
            continue
        try:
            va, vb = int(ga, base), int(gb, base)
        except ValueError:
            return 'group %d %r became %r, which is not a number' % (i + 1, ga, gb)
        if va != vb:
            return 'group %d %r (%d) became %r (%d)' % (i + 1, ga, va, gb, vb)
        if len(gb) > 1 and gb[0] == '0':
            return 'group %d %r keeps a leading zero (%r)' % (i + 1, ga, gb)
    return None


def rule_canon(chk):
    ev = Ev()
    idx = ev.idx
    chk.rule('C13.value.canon', 'drop_leading_zeros keeps separators and group values and leaves no leading zero '
                                '(interpreted on a probe set of IPv4 / IPv6 texts)', floor=15, control=True)
    done = set()
    for r in registrations(ev, SEQ_RECOGNIZER):
        if r.model_cls.name != 'IpAddressModel':
            continue
        p = r.args.get('parser')
        pcls = idx.resolve_class(r.mod, p.func) if isinstance(p, ast.Call) else None
        if pcls is None:
            raise AnalysisError('%s:%d parser class of %s not resolvable' % (r.mod.rel, r.line, r.construct))
        k, fn = idx.find_method(pcls, 'drop_leading_zeros')
        if fn is None:
            raise AnalysisError('anchor vanished: %s.drop_leading_zeros' % pcls.name)
        if k.qual in done:
            continue
        done.add(k.qual)
        chk.consulted(k.mod.path)
        where = '%s %s.drop_leading_zeros' % (k.mod.rel, k.name)
        for text in CANON_PROBES:
            out = MiniInterp(idx, pcls, where).call(fn, [text])
            why = canon_verdict(text, out)
            chk.judge(why is None, 'C13.value.canon', k.mod.path, '%s.drop_leading_zeros(%r)' % (k.name, text), '%r -> %r' % (text, out),
                      '%s.drop_leading_zeros turns %r into %r, which %s: the resolved value denotes another address'
                      % (k.name, text, out, why), fn.lineno)
    if not done:
        raise AnalysisError('no IpAddressModel registration found')
    from ..index import Cls
    ctl = Cls(idx.mod('recognizers_sequence.sequence.parsers'), ast.parse(
        "class P:\n    @staticmethod\n    def drop_leading_zeros(text):\n"
        "        return '.'.join(P._n(g) for g in text.split('.'))\n"
        "    @staticmethod\n    def _n(g):\n        if not g.startswith('0'):\n            return g\n"
        "        return g.strip('0') or '0'\n").body[0])
    out = MiniInterp(idx, ctl, 'control').call(ctl.methods['drop_leading_zeros'], ['255.010.001.255'])
    chk.control('C13.value.canon', out == '255.1.1.255' and canon_verdict('255.010.001.255', out) is not None
                and canon_verdict('255.010.001.255', '255.10.1.255') is None)


_run_before_canon = run


def run(chk):       # noqa: F811
    _run_before_canon(chk)
    rule_canon(chk)


# ---------------------------------------------------------------------------------------------------------------
# C13.index-lower and C13.prefix-slice (added after two seeded changes were not reported)
#
# C13.index-lower   in recognizers_sequence.sequence.extractors: a subscript T[x - c] of a text / list held in a name reads
#                   from the END of T when x < c (Python wraps negative indices).  Every such read - or, when the read is only
#                   stored in a local, every use of that local - must be dominated by a test that excludes x < c
#                   (`x > 0`, `x >= c`, `x != 0`, an early exit on `x < c` ...).  A subscript by a parameter of a same-class
#                   helper is followed to the helper's call sites (depth 1): an argument `x - c` needs the guard there, unless
#                   the helper itself excludes negative values.
# C13.prefix-slice  where a function tests the character before an entity (`ch = T[x - 1]`) and searches end-anchored patterns
#                   in the text in front (`front = T[0:e]`), the prefix must stop before that character (e = x - 1) - or, if
#                   it includes it (e = x), every pattern searched under a condition `ch in M` must be able to end with a
#                   character of M; otherwise the search can never succeed.

SEQ_EXTRACTORS = 'recognizers_sequence.sequence.extractors'
_EXITS = (ast.Return, ast.Continue, ast.Break, ast.Raise)


def _neg_capable(e):
    """x - c (c a positive int constant) -> (text of x, c) else None"""
    if isinstance(e, ast.BinOp) and isinstance(e.op, ast.Sub) and isinstance(e.right, ast.Constant) \
            and isinstance(e.right.value, int) and e.right.value > 0:
        return ast.unparse(e.left), e.right.value
    return None


def _excludes_below(cond, negated, x, c):
    """does `cond` (or its negation) being true imply  x >= c ?"""
    if isinstance(cond, ast.UnaryOp) and isinstance(cond.op, ast.Not):
        return _excludes_below(cond.operand, not negated, x, c)
    if isinstance(cond, ast.BoolOp):
        if isinstance(cond.op, ast.And) and not negated:
            return any(_excludes_below(v, False, x, c) for v in cond.values)
        if isinstance(cond.op, ast.Or) and negated:
            return any(_excludes_below(v, True, x, c) for v in cond.values)
        return False
    if not (isinstance(cond, ast.Compare) and len(cond.ops) == 1):
        return False
    l, r, op = cond.left, cond.comparators[0], cond.ops[0]
    flip = {ast.Lt: ast.Gt, ast.LtE: ast.GtE, ast.Gt: ast.Lt, ast.GtE: ast.LtE, ast.Eq: ast.Eq, ast.NotEq: ast.NotEq}
    neg = {ast.Lt: ast.GtE, ast.LtE: ast.Gt, ast.Gt: ast.LtE, ast.GtE: ast.Lt, ast.Eq: ast.NotEq, ast.NotEq: ast.Eq}
    opt = type(op)
    if opt not in flip:
        return False
    if isinstance(l, ast.Constant) and not isinstance(r, ast.Constant):
        l, r, opt = r, l, flip[opt]
    if negated:
        opt = neg[opt]
    if not (isinstance(r, ast.Constant) and isinstance(r.value, int)):
        return False
    k = r.value
    lt = ast.unparse(l)
    if lt == x:
        return (opt is ast.Gt and k >= c - 1) or (opt is ast.GtE and k >= c) or (opt is ast.NotEq and k == 0 and c == 1)
    if lt == '%s - %d' % (x, c):
        return (opt is ast.Gt and k >= -1) or (opt is ast.GtE and k >= 0)
    return False


class _Flow:
    """walks a function body and calls visit(node, known) for every expression node, where known is the list of
    (condition, negated) facts that hold when the node is evaluated (enclosing ifs, earlier operands of `and`, conditional
    expressions, early exits earlier in the same block)"""

    def __init__(self, visit):
        self.visit = visit

    def block(self, stmts, known):
        known = list(known)
        for st in stmts:
            self.stmt(st, known)
            if isinstance(st, ast.If) and not st.orelse and st.body and isinstance(st.body[-1], _EXITS):
                known.append((st.test, True))

    def stmt(self, st, known):
        if isinstance(st, ast.If):
            self.expr(st.test, known)
            self.block(st.body, known + [(st.test, False)])
            self.block(st.orelse, known + [(st.test, True)])
        elif isinstance(st, ast.While):
            self.expr(st.test, known)
            self.block(st.body, known + [(st.test, False)])
            self.block(st.orelse, known)
        elif isinstance(st, ast.For):
            self.expr(st.iter, known)
            self.block(st.body, known)
            self.block(st.orelse, known)
        elif isinstance(st, ast.Try):
            self.block(st.body, known)
            for h in st.handlers:
                self.block(h.body, known)
            self.block(st.orelse, known)
            self.block(st.finalbody, known)
        elif isinstance(st, ast.With):
            for it in st.items:
                self.expr(it.context_expr, known)
            self.block(st.body, known)
        elif isinstance(st, (ast.FunctionDef, ast.ClassDef)):
            return
        else:
            for ch in ast.iter_child_nodes(st):
                if isinstance(ch, ast.expr):
                    self.expr(ch, known)

    def expr(self, e, known):
        if isinstance(e, ast.BoolOp) and isinstance(e.op, ast.And):
            k = list(known)
            for v in e.values:
                self.expr(v, k)
                k = k + [(v, False)]
            return
        if isinstance(e, ast.BoolOp) and isinstance(e.op, ast.Or):
            k = list(known)
            for v in e.values:
                self.expr(v, k)
                k = k + [(v, True)]
            return
        if isinstance(e, ast.IfExp):
            self.expr(e.test, known)
            self.expr(e.body, known + [(e.test, False)])
            self.expr(e.orelse, known + [(e.test, True)])
            return
        self.visit(e, known)
        for ch in ast.iter_child_nodes(e):
            if isinstance(ch, ast.expr):
                self.expr(ch, known)
            elif isinstance(ch, ast.comprehension):
                self.expr(ch.iter, known)
                for c in ch.ifs:
                    self.expr(c, known)
            elif isinstance(ch, ast.keyword):
                self.expr(ch.value, known)


def _guarded(known, x, c):
    return any(_excludes_below(cond, neg, x, c) for cond, neg in known)


def _recv_name(e):
    """the text / list a subscript reads: T  or  list(T)  (both read position k of T) -> name or None"""
    if isinstance(e, ast.Name):
        return e.id
    if isinstance(e, ast.Call) and isinstance(e.func, ast.Name) and e.func.id == 'list' and len(e.args) == 1 and not e.keywords \
            and isinstance(e.args[0], ast.Name):
        return e.args[0].id
    return None


def _flat_facts(known):
    out = []
    for cond, neg in known:
        if not neg and isinstance(cond, ast.BoolOp) and isinstance(cond.op, ast.And):
            out.extend(_flat_facts([(v, False) for v in cond.values]))
        elif neg and isinstance(cond, ast.BoolOp) and isinstance(cond.op, ast.Or):
            out.extend(_flat_facts([(v, True) for v in cond.values]))
        elif isinstance(cond, ast.UnaryOp) and isinstance(cond.op, ast.Not):
            out.extend(_flat_facts([(cond.operand, not neg)]))
        else:
            out.append((cond, neg))
    return out


def reached_only_after_letter(fn, node, known, text):
    """is the read `node` only evaluated after (a) <s>.endswith(..) held for the matched text and (b) isalpha() held for a
    character of `text` at a position that is not negative-capable (the neighbour after the match)?  -> description or None"""
    locals_from = {}
    for n in ast.walk(fn):
        if isinstance(n, ast.Assign) and len(n.targets) == 1 and isinstance(n.targets[0], ast.Name) and isinstance(n.value, ast.Subscript) \
                and not isinstance(n.value.slice, ast.Slice) and _recv_name(n.value.value) == text and _neg_capable(n.value.slice) is None:
            locals_from[n.targets[0].id] = ast.unparse(n.value)
    ends = alpha = None
    for cond, neg in _flat_facts(known):
        if neg or not isinstance(cond, ast.Call) or not isinstance(cond.func, ast.Attribute):
            continue
        if cond.func.attr == 'endswith':
            ends = ast.unparse(cond)
        if cond.func.attr == 'isalpha':
            arg = cond.args[0] if (isinstance(cond.func.value, ast.Name) and cond.func.value.id == 'str' and cond.args) else cond.func.value
            if isinstance(arg, ast.Name) and arg.id in locals_from:
                alpha = '%s (= %s)' % (ast.unparse(cond), locals_from[arg.id])
            elif isinstance(arg, ast.Subscript) and not isinstance(arg.slice, ast.Slice) and _recv_name(arg.value) == text \
                    and _neg_capable(arg.slice) is None:
                alpha = ast.unparse(cond)
    if ends and alpha:
        return 'only evaluated after %s and %s held' % (ends, alpha)
    return None


def index_lower_instances(cls_methods, fn):
    """verdicts for the negative-capable subscripts of fn -> list of (node, text, ok, why); cls_methods: name -> FunctionDef of
    the same class (to follow helper parameters to their call sites)"""
    out = []
    params = [a.arg for a in fn.args.args if a.arg not in ('self', 'cls')]
    stored = {}      # local -> (subscript node, x, c) when `v = T[x - c]` is read unguarded
    param_reads = {}  # parameter -> subscript node read without a lower-bound guard inside the helper
    plain_assign_value = {}
    for n in ast.walk(fn):
        if isinstance(n, ast.Assign) and len(n.targets) == 1 and isinstance(n.targets[0], ast.Name):
            plain_assign_value[id(n.value)] = n.targets[0].id
    uses = []

    def visit(e, known):
        if isinstance(e, ast.Subscript) and not isinstance(e.slice, ast.Slice) and _recv_name(e.value) is not None \
                and isinstance(e.ctx, ast.Load):
            nc = _neg_capable(e.slice)
            # normal form of the read: list(T)[k] and T[k] are the same read
            text = '%s[%s]' % (_recv_name(e.value), ast.unparse(e.slice))
            if nc is not None:
                x, c = nc
                if _guarded(known, x, c):
                    out.append((e, text, True, 'dominated by a test excluding %s < %d' % (x, c)))
                elif id(e) in plain_assign_value:
                    stored[plain_assign_value[id(e)]] = (e, x, c)
                else:
                    after = reached_only_after_letter(fn, e, known, _recv_name(e.value))
                    if after:
                        out.append((e, text, None, after))
                    else:
                        out.append((e, text, False, 'no test excluding %s < %d dominates the read' % (x, c)))
            elif isinstance(e.slice, ast.Name) and e.slice.id in params:
                p = e.slice.id
                if _guarded(known, p, 0):
                    out.append((e, ast.unparse(e), True, 'the function itself excludes %s < 0 before the read' % p))
                else:
                    param_reads.setdefault(p, e)
        if isinstance(e, ast.Name) and isinstance(e.ctx, ast.Load):
            uses.append((e, known))
    _Flow(visit).block(fn.body, [])
    for v, (node, x, c) in stored.items():
        bad = [u for u, known in uses if u.id == v and u.lineno >= node.lineno and not _guarded(known, x, c)]
        out.append((node, '%s = %s' % (v, ast.unparse(node)), not bad,
                    'every use of %s is dominated by a test excluding %s < %d' % (v, x, c) if not bad else
                    '%s is used at line %d without a test excluding %s < %d' % (v, bad[0].lineno, x, c)))
    return out, param_reads


def helper_call_instances(cls, cls_methods):
    """subscripts by a helper parameter that the helper does not bound below: verdict at each same-class call site"""
    out = []
    for hname, hfn in cls_methods.items():
        _inst, param_reads = index_lower_instances(cls_methods, hfn)
        if not param_reads:
            continue
        hparams = [a.arg for a in hfn.args.args if a.arg not in ('self', 'cls')]
        for cname, cfn in cls_methods.items():
            def visit(e, known, hname=hname, hparams=hparams, param_reads=param_reads, cname=cname):
                if isinstance(e, ast.Call) and isinstance(e.func, ast.Attribute) and e.func.attr == hname \
                        and isinstance(e.func.value, ast.Name) and e.func.value.id in ('self', 'cls', cls.name):
                    bound = dict(zip(hparams, e.args))
                    for kw in e.keywords:
                        if kw.arg:
                            bound[kw.arg] = kw.value
                    for p, sub in param_reads.items():
                        a = bound.get(p)
                        nc = _neg_capable(a) if a is not None else None
                        if nc is None:
                            continue
                        x, c = nc
                        good = _guarded(known, x, c)
                        out.append((e, '%s.%s: %s -> %s.%s reads %s' % (cls.name, cname, ast.unparse(e), cls.name, hname, ast.unparse(sub)), good,
                                    ('call dominated by a test excluding %s < %d' % (x, c)) if good else
                                    'neither %s nor this call site excludes %s < %d: %s wraps around to the end of the text'
                                    % (hname, x, c, ast.unparse(sub))))
            _Flow(visit).block(cfn.body, [])
    return out


def _can_end_with(n, ch):
    k = n.kind
    if k in ('lit', 'any', 'cc', 'class', 'range'):
        return rx._ch_match(n, ch)
    if k == 'group':
        return _can_end_with(n.node, ch)
    if k == 'alt':
        return any(_can_end_with(a, ch) for a in n.items)
    if k == 'rep':
        return _can_end_with(n.node, ch)
    if k == 'seq':
        for it in reversed(n.items):
            if it.kind in ('anchor', 'look', 'flags'):
                continue
            if _can_end_with(it, ch):
                return True
            if not nullable(it):
                return False
        return False
    return False


def _end_anchored(n):
    m = n
    while m.kind == 'group':
        m = m.node
    if m.kind == 'alt':
        return all(_end_anchored(a) for a in m.items)
    if m.kind == 'seq' and m.items:
        last = [it for it in m.items if it.kind != 'flags']
        return bool(last) and (last[-1].kind == 'anchor' and last[-1].c in ('$', '\\Z', '\\z') or _end_anchored(last[-1]) if last[-1].kind in ('group', 'alt', 'seq') else
                               last[-1].kind == 'anchor' and last[-1].c in ('$', '\\Z', '\\z'))
    return m.kind == 'anchor' and m.c in ('$', '\\Z', '\\z')


_TCC = {}


def trailing_colon_closed(ev):
    """every wired IPv6 pattern alternative that can end with ':' ends at a non-word boundary (\\B, or an alternation of \\B and
    look-behinds that cannot hold after ':'), hence the character after a match ending in ':' is never a letter"""
    if 'v' in _TCC:
        return _TCC['v']
    idx = ev.idx
    pats = []
    for r in registrations(ev, SEQ_RECOGNIZER):
        e = r.args.get('extractor')
        if r.model_cls.name == 'IpAddressModel' and isinstance(e, ast.Call) and e.args and isinstance(e.args[0], ast.Call):
            ecls, ccls = idx.resolve_class(r.mod, e.func), idx.resolve_class(r.mod, e.args[0].func)
            for rv in extractor_closure(ev, ecls):
                if rv.kind == 'config':
                    v = slot(ev, ccls, rv.name).value
                    if isinstance(v, str):
                        pats.append(('%s.%s' % (ccls.name, rv.name), v))

    def nonword_end(n):
        k = n.kind
        if k == 'anchor':
            return n.c == '\\B'
        if k == 'group':
            return nonword_end(n.node)
        if k == 'alt':
            return all(nonword_end(a) for a in n.items)
        if k == 'look':
            # a look-behind for a character class that excludes ':' can never hold right after ':'
            if n.dir == 'behind':
                inner = unwrap(n.node)
                try:
                    return inner.kind in ('class', 'cc', 'range', 'lit') and not rx._ch_match(inner, ':')
                except rx.RxError:
                    return False
            return False
        if k == 'seq':
            items = [it for it in n.items if it.kind != 'flags']
            return bool(items) and nonword_end(items[-1])
        return False

    def flat_alts(n):
        out = []
        for a in top_alternatives(n):
            sub = top_alternatives(a)
            out.extend(flat_alts(a) if len(sub) > 1 or sub[0] is not a else [a])
        return out
    bad = []
    for name, pat in pats:
        try:
            tree = rx.parse(pat)
        except rx.RxError:
            bad.append('%s not analysable' % name)
            continue
        for alt in flat_alts(tree):
            if _can_end_with(alt, ':') and not nonword_end(alt):
                bad.append('%s: alternative %s can end with \':\' without a non-word boundary' % (name, short(rx.unparse(alt), 50)))
    if not pats:
        bad.append('no IP pattern found')
    _TCC['v'] = (not bad, ('every alternative of the %d wired IP patterns that can end with \':\' ends at a non-word boundary, so no letter '
                           'can follow a trailing \'::\'' % len(pats)) if not bad else '; '.join(bad[:2]))
    return _TCC['v']


def rule_index_lower_and_prefix(chk):
    ev = Ev()
    idx = ev.idx
    chk.rule('C13.index-lower', 'a subscript T[x - c] is only read (or its value only used) where x >= c is established', floor=2, control=True)
    chk.rule('C13.prefix-slice', 'the prefix searched with end-anchored patterns stops before the separately tested separator character',
             floor=2, control=True)
    m = idx.mod(SEQ_EXTRACTORS)
    chk.consulted(m.path)
    for cls in m.classes.values():
        for fn in cls.methods.values():
            inst, _pr = index_lower_instances(cls.methods, fn)
            for node, text, good, why in inst:
                if good is None:
                    closed, proof = trailing_colon_closed(ev)
                    construct = '%s.%s: %s after the trailing-separator and following-letter tests' % (cls.name, fn.name, text)
                    if closed:
                        chk.exempt('C13.index-lower', m.path, construct,
                                   'reviewed: the read has no lower-bound guard, but it is %s, and %s - so it is never evaluated' % (why, proof),
                                   'latent', node.lineno)
                    else:
                        chk.bad('C13.index-lower', m.path, construct, 'no lower-bound test; reachable',
                                '%s.%s reads %s with no test excluding a negative index. The read is %s - and that is reachable: %s. '
                                'For a match at offset 0 the index is -1 and Python reads the LAST character of the text, so whether '
                                '"1:2:3:4:5:6:7::g" is dropped depends on how the text ends ("...::g" -> nothing, "...::g中" -> reported)'
                                % (cls.name, fn.name, text, why, proof), node.lineno)
                    continue
                chk.judge(good, 'C13.index-lower', m.path, '%s.%s: %s' % (cls.name, fn.name, text), why,
                          '%s.%s reads %s, but %s: for a match at the very start of the input the index is negative and Python reads '
                          'from the END of the text' % (cls.name, fn.name, text, why), node.lineno)
        for node, text, good, why in helper_call_instances(cls, cls.methods):
            chk.judge(good, 'C13.index-lower', m.path, text, why, '%s: %s' % (text, why), node.lineno)
    ctl = ast.parse("class X:\n    def extract(self, source, start):\n        if self._w(source, start - 1):\n            pass\n"
                    "    def _w(self, source, index):\n        if index >= len(source):\n            return False\n"
                    "        c = source[index]\n        return c.isdigit()\n").body[0]
    from ..index import Cls
    cc = Cls(m, ctl)
    chk.control('C13.index-lower', [g for _n, _t, g, _w in helper_call_instances(cc, cc.methods)] == [False])

    # ---- prefix slice
    phone_cfgs = []
    for r in registrations(ev, SEQ_RECOGNIZER):
        e = r.args.get('extractor')
        if r.model_cls.name == 'PhoneNumberModel' and isinstance(e, ast.Call) and e.args and isinstance(e.args[0], ast.Call):
            c = idx.resolve_class(r.mod, e.args[0].func)
            if c is not None and c not in phone_cfgs:
                phone_cfgs.append(c)

    def values_of(mod, e):
        """evaluate a pattern / marker expression: resource constant, or self.config.<slot> over the phone configurations"""
        d = dotted(e)
        if d and d.startswith('config.'):       # constructor parameter of the extractor
            d = 'self.' + d
        if d and d.startswith('self.config.'):
            out = []
            for c in phone_cfgs:
                sl = slot(ev, c, d[len('self.config.'):])
                if sl.value is not None:
                    out.append((c.name, sl.value))
            return out
        try:
            return [('', ev.ev(mod, e))]
        except Unresolved:
            return []
    for cls in m.classes.values():
        for fn in cls.methods.values():
            ch_locals, fronts, compiled = {}, {}, {}
            for n in ast.walk(fn):
                if isinstance(n, ast.Assign) and len(n.targets) == 1 and isinstance(n.targets[0], ast.Name):
                    v, val = n.targets[0].id, n.value
                    if isinstance(val, ast.Subscript) and isinstance(val.value, ast.Name):
                        if not isinstance(val.slice, ast.Slice):
                            nc = _neg_capable(val.slice)
                            if nc and nc[1] == 1:
                                ch_locals[v] = (val.value.id, nc[0])
                        elif val.slice.step is None and (val.slice.lower is None or (isinstance(val.slice.lower, ast.Constant) and val.slice.lower.value == 0)) \
                                and val.slice.upper is not None:
                            up = val.slice.upper
                            nc = _neg_capable(up)
                            if nc:
                                fronts[v] = (val.value.id, nc[0], -nc[1], n.lineno)
                            elif isinstance(up, ast.BinOp) and isinstance(up.op, ast.Add) and isinstance(up.right, ast.Constant):
                                fronts[v] = (val.value.id, ast.unparse(up.left), up.right.value, n.lineno)
                            else:
                                fronts[v] = (val.value.id, ast.unparse(up), 0, n.lineno)
                    if isinstance(val, ast.Call) and dotted(val.func) in ('re.compile', 'regex.compile') and val.args:
                        compiled[v] = val.args[0]
                    elif is_self_attr(val) and val.attr != 'config':
                        compiled[v] = val
            pairs = [(chv, fv) for chv, (t1, x1) in ch_locals.items() for fv, (t2, x2, k, _l) in fronts.items() if t1 == t2 and x1 == x2]
            if not pairs:
                continue
            for chv, fv in pairs:
                t, x, k, fline = fronts[fv]

                def visit(e, known, chv=chv, fv=fv, k=k, x=x, fn=fn, cls=cls):
                    if not (isinstance(e, ast.Call) and isinstance(e.func, ast.Attribute) and e.func.attr == 'search' and e.args
                            and isinstance(e.args[-1], ast.Name) and e.args[-1].id == fv):
                        return
                    pexpr = e.func.value
                    if isinstance(pexpr, ast.Name) and pexpr.id in compiled:
                        pexpr = compiled[pexpr.id]
                    if is_self_attr(pexpr) and pexpr.attr != 'config':
                        plain, _cond = init_assignments(idx, cls, pexpr.attr)
                        if not plain:
                            raise AnalysisError('%s.%s:%d %s searched in %s is never assigned unconditionally in __init__'
                                                % (cls.name, fn.name, e.lineno, ast.unparse(pexpr), fv))
                        pexpr = plain[-1][1].value
                    if isinstance(pexpr, ast.Call) and dotted(pexpr.func) in ('re.compile', 'regex.compile') and pexpr.args:
                        pexpr = pexpr.args[0]
                    markers = None
                    flat = []
                    for cond, neg in known:
                        if not neg and isinstance(cond, ast.BoolOp) and isinstance(cond.op, ast.And):
                            flat.extend((v_, False) for v_ in cond.values)
                        else:
                            flat.append((cond, neg))
                    for cond, neg in flat:
                        if not neg and isinstance(cond, ast.Compare) and len(cond.ops) == 1 and isinstance(cond.ops[0], ast.In) \
                                and isinstance(cond.left, ast.Name) and cond.left.id == chv:
                            vals = values_of(m, cond.comparators[0])
                            if not vals:
                                raise AnalysisError('%s.%s: marker set %s not evaluable' % (cls.name, fn.name, ast.unparse(cond.comparators[0])))
                            s = set()
                            for _c, v_ in vals:
                                s |= set(v_)
                            markers = s if markers is None else (markers & s)
                    if markers is None:
                        return      # the search does not depend on the separator character
                    pats = values_of(m, pexpr)
                    if not pats:
                        raise AnalysisError('%s.%s:%d pattern %s searched in %s not evaluable' % (cls.name, fn.name, e.lineno, ast.unparse(pexpr), fv))
                    for cname, pat in pats:
                        if not isinstance(pat, str):
                            continue
                        try:
                            tree = rx.parse(pat)
                        except rx.RxError as ex:
                            raise AnalysisError('%s.%s: pattern %s not analysable: %s' % (cls.name, fn.name, ast.unparse(pexpr), ex))
                        construct = '%s.%s: %s.search(%s) under %s in %s%s' % (cls.name, fn.name, ast.unparse(pexpr), fv, chv, sorted(markers),
                                                                              ' [%s]' % cname if cname else '')
                        if not _end_anchored(tree):
                            chk.ok('C13.prefix-slice', m.path, construct, 'pattern is not end-anchored', e.lineno)
                            continue
                        if k == -1:
                            chk.ok('C13.prefix-slice', m.path, construct, '%s ends before %s (= the character at %s - 1)' % (fv, chv, x), e.lineno)
                        elif k == 0:
                            can = sorted(c_ for c_ in markers if _can_end_with(tree, c_))
                            chk.judge(bool(can), 'C13.prefix-slice', m.path, construct,
                                      '%s includes %s; pattern can end with %s' % (fv, chv, can),
                                      '%s.%s: %s now ends WITH the separator character %s (one of %s), but the end-anchored pattern %r '
                                      'searched in it cannot end with any of these characters: the search can never succeed (a number '
                                      'glued to a label or dialing prefix is dropped)' % (cls.name, fn.name, fv, chv, sorted(markers), pat), e.lineno)
                        else:
                            raise AnalysisError('%s.%s: prefix %s ends at %s%+d relative to the tested character; not understood'
                                                % (cls.name, fn.name, fv, x, k))
                _Flow(visit).block(fn.body, [])
    t = rx.parse('(([a-z])\\s*$)')
    chk.control('C13.prefix-slice', _end_anchored(t) and not _can_end_with(t, ':') and _can_end_with(t, 'x') and _can_end_with(t, ' ')
                and not _can_end_with(rx.parse('0(0|11)$'), '-'))


_run_before_index_lower = run


def run(chk):       # noqa: F811
    _run_before_index_lower(chk)
    rule_index_lower_and_prefix(chk)


# ---------------------------------------------------------------------------------------------------------------
# C13.config-slots: override discipline.  An extractor that is constructed with a configuration object must read every
# pattern / marker slot through that object.  For each extractor class and each slot some registered configuration defines:
# if the configurations of the registered cultures do not all yield the same value, the extractor class must not reference
# any of the resource constants the slot is wired from directly - that would silently ignore the other culture's override.

def rule_config_slots(chk):
    ev = Ev()
    idx = ev.idx
    chk.rule('C13.config-slots', 'an extractor reads culture-dependent configuration slots through its configuration, never through '
                                 'one culture\'s resource constant', floor=6, control=True)
    groups = {}
    for r in registrations(ev, SEQ_RECOGNIZER):
        e = r.args.get('extractor')
        if isinstance(e, ast.Call) and e.args and isinstance(e.args[0], ast.Call):
            ecls, ccls = idx.resolve_class(r.mod, e.func), idx.resolve_class(r.mod, e.args[0].func)
            if ecls is not None and ccls is not None:
                groups.setdefault(ecls.qual, (ecls, []))[1].append(ccls) if ccls not in groups.get(ecls.qual, (None, []))[1] else None
    if not groups:
        raise AnalysisError('no sequence extractor constructed from a configuration object found')
    for _q, (ecls, cfgs) in sorted(groups.items()):
        chk.consulted(ecls.mod.path)
        slots = []
        for c in cfgs:
            chk.consulted(c.mod.path)
            for k in idx.mro(c):
                if not k.mod.name.startswith('recognizers_'):
                    continue
                for name, fn in k.methods.items():
                    if name.startswith('__') or '#' in name or name in slots:
                        continue
                    if any(isinstance(d, ast.Name) and d.id == 'property' for d in fn.decorator_list):
                        slots.append(name)
        used = {}
        for k in idx.mro(ecls):
            if not k.mod.name.startswith('recognizers_'):
                continue
            for fn in k.methods.values():
                for n in ast.walk(fn):
                    if isinstance(n, ast.Attribute) and isinstance(n.value, ast.Name):
                        used.setdefault(dotted(n), n.lineno)
        for s_ in sorted(slots):
            per_cfg = []
            for c in cfgs:
                try:
                    sl = slot(ev, c, s_)
                except AnalysisError:
                    continue
                if isinstance(sl.value, (str, list)):
                    per_cfg.append((c.name, sl.origin, sl.value))
            if len(per_cfg) < 1:
                continue
            distinct = {repr(v) for _c, _o, v in per_cfg}
            origins = sorted({o for _c, o, _v in per_cfg if o in used})
            construct = '%s <- %s.%s' % (ecls.name, '/'.join(c.name for c in cfgs), s_)
            if len(distinct) <= 1 and len(per_cfg) == len(cfgs):
                chk.ok('C13.config-slots', ecls.mod.path, construct, 'same value in every registered configuration', None)
                continue
            chk.judge(not origins, 'C13.config-slots', ecls.mod.path, construct,
                      'culture-dependent (%d distinct values); direct resource references in the extractor: %s' % (len(distinct), origins),
                      '%s reads %s directly (line %s) although the slot %s differs between the registered configurations (%s): the '
                      'override of the other culture(s) is ignored' % (
                          ecls.name, ', '.join(origins), ', '.join(str(used[o]) for o in origins), s_,
                          '; '.join('%s: %s' % (c_, o_) for c_, o_, _v in per_cfg)), used[origins[0]] if origins else None)
    chk.control('C13.config-slots', len({repr('(([a-z])\\s*$)'), repr('(([a-z]|[\\u4E00-\\u9FA5])\\s*$)')}) > 1)


_run_before_config_slots = run


def run(chk):       # noqa: F811
    _run_before_config_slots(chk)
    rule_config_slots(chk)


# ---------------------------------------------------------------------------------------------------------------
# C13.pre-check and C13.case (round 5)
#
# C13.pre-check  the pre-check an extractor applies to the whole input before running its patterns (_pre_check_str, through the
#                MRO of the registered extractor class) is interpreted on a shortest member of every top-level alternative of
#                every pattern the extractor wires: it must admit it.  (A length threshold above the shortest match silently
#                removes a layout, e.g. the undashed 32-character GUID.)
# C13.case       an extractor that looks captured text up in a table of lower-case words with the case-sensitive StringMatcher
#                must be fed lower-cased text: the model lower-cases the query (QueryProcessor.preprocess reaching extract), or the
#                lookup key is lower-cased at the lookup.

def shortest_member(n):
    """a shortest string of L+(n) (assertions are empty)"""
    k = n.kind
    if k == 'lit':
        return n.c
    if k == 'sym':
        return n.c
    if k == 'any':
        return 'a'
    if k == 'cc':
        return {'d': '0', 'w': 'a', 's': ' ', 'S': 'a', 'W': '-', 'D': 'a'}.get(n.c, 'a')
    if k == 'range':
        return n.c[0]
    if k == 'class':
        if not n.neg:
            return shortest_member(n.items[0]) if n.items else ''
        for cand in 'a0-_ .:/@#~':
            if rx._ch_match(n, cand):
                return cand
        return 'a'
    if k == 'seq':
        return ''.join(shortest_member(x) for x in n.items)
    if k == 'alt':
        return min((shortest_member(a) for a in n.items), key=len)
    if k == 'group':
        return shortest_member(n.node)
    if k == 'rep':
        return shortest_member(n.node) * n.lo
    return ''


def lowering_assignment(ev, mcls):
    """does the text handed to self.extractor.extract(...) in Model.parse come from a lower-casing pre-processing call?
    -> (bool, description)"""
    idx = ev.idx
    k, fn = idx.find_method(mcls, 'parse')
    if fn is None:
        raise AnalysisError('%s has no parse' % mcls.name)
    ext = [n for n in ast.walk(fn) if isinstance(n, ast.Call) and isinstance(n.func, ast.Attribute) and n.func.attr == 'extract'
           and dotted(n.func.value) == 'self.extractor' and n.args]
    if not ext:
        raise AnalysisError('%s.parse: call self.extractor.extract(...) not found' % k.name)
    arg = ext[0].args[0]
    if not isinstance(arg, ast.Name):
        return False, 'extract() is not called with a plain variable'
    last = None
    for n in ast.walk(fn):
        if isinstance(n, ast.Assign) and len(n.targets) == 1 and isinstance(n.targets[0], ast.Name) and n.targets[0].id == arg.id \
                and n.lineno <= ext[0].lineno:
            if last is None or n.lineno > last.lineno:
                last = n
    if last is None:
        return False, '%s.parse passes the raw query to extract()' % k.name

    def lowers(expr, depth):
        if not isinstance(expr, ast.Call):
            return False, 'value %s' % ast.unparse(expr)[:40]
        if dotted(expr.func) == 'QueryProcessor.preprocess':
            return preprocess_lowercases(ev, expr), 'QueryProcessor.preprocess'
        if is_self_attr(expr.func) and depth > 0:
            kk, m = idx.find_method(mcls, expr.func.attr)
            if m is not None:
                rets = [r.value for r in ast.walk(m) if isinstance(r, ast.Return) and r.value is not None]
                if rets and all(lowers(r, depth - 1)[0] for r in rets):
                    return True, '%s.%s -> QueryProcessor.preprocess' % (kk.name, m.name)
                return False, '%s.%s returns %s' % (kk.name, m.name, '/'.join(ast.unparse(r)[:30] for r in rets) or 'nothing')
        return False, 'call %s' % ast.unparse(expr.func)
    return lowers(last.value, 2)


def table_lookups(ev, ecls):
    """StringMatcher-style lookups of an extractor class: X.init(<list of words>) ... X.find(key)
    -> [(defining class, find call, key lowered?, table, init expr text)]"""
    idx = ev.idx
    inits, finds = {}, []
    for k in idx.mro(ecls):
        if not k.mod.name.startswith('recognizers_sequence'):
            continue
        for fn in k.methods.values():
            lowered_locals = set()
            for n in ast.walk(fn):
                if isinstance(n, ast.Assign) and len(n.targets) == 1 and isinstance(n.targets[0], ast.Name) \
                        and any(isinstance(c, ast.Call) and isinstance(c.func, ast.Attribute) and c.func.attr in ('lower', 'casefold')
                                for c in ast.walk(n.value)):
                    lowered_locals.add(n.targets[0].id)
            for n in ast.walk(fn):
                if isinstance(n, ast.Call) and isinstance(n.func, ast.Attribute) and len(n.args) >= 1:
                    recv = ast.unparse(n.func.value)
                    if n.func.attr == 'init':
                        try:
                            v = ev.ev(k.mod, n.args[0])
                        except Unresolved:
                            continue
                        if isinstance(v, list) and v and all(isinstance(x, str) for x in v):
                            inits[recv] = (v, ast.unparse(n.args[0]))
                    elif n.func.attr == 'find':
                        a = n.args[0]
                        low = (isinstance(a, ast.Name) and a.id in lowered_locals) or any(
                            isinstance(c, ast.Call) and isinstance(c.func, ast.Attribute) and c.func.attr in ('lower', 'casefold')
                            for c in ast.walk(a))
                        finds.append((k, n, recv, low))
    return [(k, n, low, inits[recv][0], inits[recv][1]) for k, n, recv, low in finds if recv in inits]


def rule_precheck_and_case(chk):
    from .c03 import DigitInterp
    ev = Ev()
    idx = ev.idx
    chk.rule('C13.pre-check', 'the extractor\'s input pre-check admits a shortest member of every alternative of every wired pattern',
             floor=8, control=True)
    chk.rule('C13.case', 'a case-sensitive lookup in a lower-case word table is fed lower-cased text', floor=1, control=True)
    regs = registrations(ev, SEQ_RECOGNIZER)
    seen = set()
    matcher_folds = False
    for name, m in idx.mods.items():
        if name.startswith('recognizers_text.matcher'):
            for n in ast.walk(m.tree):
                if isinstance(n, ast.Call) and isinstance(n.func, ast.Attribute) and n.func.attr in ('lower', 'casefold', 'upper'):
                    matcher_folds = True
    for r in regs:
        e = r.args.get('extractor')
        if not isinstance(e, ast.Call):
            continue
        ecls = idx.resolve_class(r.mod, e.func)
        if ecls is None:
            raise AnalysisError('%s:%d extractor class not resolvable' % (r.mod.rel, r.line))
        ccls = idx.resolve_class(r.mod, e.args[0].func) if e.args and isinstance(e.args[0], ast.Call) else None
        # ---- case
        for k, call, low, table, texpr in table_lookups(ev, ecls):
            lower_only = all(w == w.lower() for w in table) and any(c.isalpha() for w in table for c in w)
            mlow, how = lowering_assignment(ev, r.model_cls)
            construct = '%s: %s for %s' % (k.name, ast.unparse(call)[:60], r.construct)
            if not lower_only or matcher_folds:
                chk.ok('C13.case', k.mod.path, construct, 'table %s is not lower-case-only / the matcher folds case' % texpr, call.lineno)
                continue
            chk.judge(mlow or low, 'C13.case', k.mod.path, construct,
                      'table %s: %d lower-case words; model lower-cases: %s (%s); key lower-cased at the lookup: %s' % (texpr, len(table), mlow, how, low),
                      '%s looks the captured text up in %s (%d lower-case words) with the case-sensitive StringMatcher, but %s does not '
                      'lower-case the query before extraction (%s) and the key is not lower-cased at the lookup: an upper-case spelling '
                      '(e.g. the TLD of http://www.example.COM) is rejected' % (k.name, texpr, len(table), r.model_cls.name, how), call.lineno)
        # ---- pre-check
        key = (ecls.qual, ccls.qual if ccls else None)
        if key in seen:
            continue
        seen.add(key)
        pk, pfn = idx.find_method(ecls, '_pre_check_str')
        if pfn is None:
            continue
        chk.consulted(pk.mod.path)
        skipped = 0
        for rv in extractor_closure(ev, ecls):
            pat = None
            if rv.kind == 'resource':
                pat = rv.pattern
            elif rv.kind == 'config' and ccls is not None:
                v = slot(ev, ccls, rv.name).value
                pat = v if isinstance(v, str) else None
            if pat is None:
                skipped += 1
                continue
            try:
                tree = rx.parse(pat)
            except rx.RxError:
                skipped += 1
                continue
            wits = sorted({shortest_member(a) for a in top_alternatives(tree)}, key=len)
            wits = [w for w in wits if w]
            rejected = []
            for w in wits:
                ok_ = DigitInterp(idx, pk, '%s._pre_check_str' % pk.name, {}, ev).call(pfn, [w])
                if not ok_:
                    rejected.append(w)
            label = rv.name or rv.expr
            chk.judge(not rejected, 'C13.pre-check', pk.mod.path, '%s._pre_check_str vs %s%s' % (pk.name, label, ' [%s]' % ccls.name if ccls else ''),
                      '%d shortest members (lengths %s) admitted: %s' % (len(wits), sorted({len(w) for w in wits}), not rejected),
                      '%s._pre_check_str (used by %s) rejects %r (length %d), a shortest string of an alternative of %s: inputs consisting of '
                      'such an entity are never looked at' % (pk.name, ecls.name, rejected[0] if rejected else '', len(rejected[0]) if rejected else 0,
                                                              label), pfn.lineno)
        if skipped:
            chk.observe('%s: %d wired pattern(s) are parameterised / not evaluable and are not compared with the pre-check' % (ecls.name, skipped))
    from ..index import Cls
    em = idx.mod('recognizers_sequence.sequence.extractors')
    ctl = Cls(em, ast.parse("class X:\n    @staticmethod\n    def _pre_check_str(source):\n        return len(source) >= 36\n").body[0])
    chk.control('C13.pre-check', not DigitInterp(idx, ctl, 'control', {}, ev).call(ctl.methods['_pre_check_str'], ['a' * 32])
                and len(shortest_member(rx.parse('(([a-f0-9]{8}(-[a-f0-9]{4}){3}-[a-f0-9]{12})|([a-f0-9]{32}))'))) == 32)
    mm = idx.mod('recognizers_sequence.sequence.models')
    ctl = Cls(mm, ast.parse("class M:\n    def parse(self, query):\n        query = self.preprocess(query)\n        r = self.extractor.extract(query)\n"
                            "    def preprocess(self, query):\n        return query\n").body[0])
    chk.control('C13.case', lowering_assignment(ev, ctl)[0] is False)


_run_before_precheck_case = run


def run(chk):       # noqa: F811
    _run_before_precheck_case(chk)
    rule_precheck_and_case(chk)


# ---------------------------------------------------------------------------------------------------------------
# C13.config-wiring (round 6): a configuration slot is not fed from the resource constant that belongs to ANOTHER slot.
# For every registered configuration class and slot wired from `Resource.Attr`: if Attr is named for a different slot of the
# same configuration while the resource class also defines the constant named for this slot, with a different value, the
# wiring is crossed (forbidden_suffix_markers <- ForbiddenPrefixMarkers).

def rule_config_wiring(chk):
    ev = Ev()
    idx = ev.idx
    chk.rule('C13.config-wiring', 'a configuration slot is wired from the resource constant named for it, not from another slot\'s constant',
             floor=10, control=True)

    def norm(x):
        return x.replace('_', '').lower()

    def crossed(slot_name, origin_attr, all_slots, res_vals, value):
        """-> name of the constant that should have been used, or None"""
        if norm(origin_attr) == norm(slot_name):
            return None
        if norm(origin_attr) not in {norm(s) for s in all_slots if s != slot_name}:
            return None
        own = [a for a in res_vals if norm(a) == norm(slot_name)]
        if own and res_vals[own[0]] != value:
            return own[0]
        return None
    seen = set()
    for r in registrations(ev, SEQ_RECOGNIZER):
        e = r.args.get('extractor')
        if not (isinstance(e, ast.Call) and e.args and isinstance(e.args[0], ast.Call)):
            continue
        ccls = idx.resolve_class(r.mod, e.args[0].func)
        if ccls is None or ccls.qual in seen:
            continue
        seen.add(ccls.qual)
        chk.consulted(ccls.mod.path)
        slots = []
        for k in idx.mro(ccls):
            if not k.mod.name.startswith('recognizers_'):
                continue
            for name, fn in k.methods.items():
                if not name.startswith('__') and '#' not in name and name not in slots \
                        and any(isinstance(d, ast.Name) and d.id == 'property' for d in fn.decorator_list):
                    slots.append(name)
        for s_ in sorted(slots):
            try:
                sl = slot(ev, ccls, s_)
            except AnalysisError:
                continue
            inner = strip_safe_regexp(sl.expr)[0] if sl.expr is not None else None
            if not (isinstance(inner, ast.Attribute) and isinstance(inner.value, ast.Name)) or not isinstance(sl.value, (str, list)):
                continue
            rc = idx.resolve_class(sl.cls.mod, inner.value)
            if rc is None:
                continue
            try:
                res_vals = {a: v for a, v in ev.R.values(rc).items() if isinstance(v, (str, list))}
            except AnalysisError:
                continue
            want = crossed(s_, inner.attr, slots, res_vals, sl.value)
            chk.judge(want is None, 'C13.config-wiring', sl.cls.mod.path, '%s.%s' % (ccls.name, s_), 'wired from %s' % sl.origin,
                      '%s.%s is wired from %s, the constant of another slot, although %s.%s exists and differs (%s vs %s): the extractor '
                      'applies the wrong character set / pattern for this slot' % (ccls.name, s_, sl.origin, rc.name, want,
                                                                                   short(sl.value, 40), short(res_vals.get(want), 40)), sl.line)
    chk.control('C13.config-wiring', crossed('forbidden_suffix_markers', 'ForbiddenPrefixMarkers', ['forbidden_prefix_markers', 'forbidden_suffix_markers'],
                                             {'ForbiddenPrefixMarkers': [',', ':'], 'ForbiddenSuffixMarkers': ['/', '+']}, [',', ':']) == 'ForbiddenSuffixMarkers'
                and crossed('ipv4_regex', 'Ipv4Regex', ['ipv4_regex', 'ipv6_regex'], {'Ipv4Regex': 'a', 'Ipv6Regex': 'b'}, 'a') is None)


_run_before_config_wiring = run


def run(chk):       # noqa: F811
    _run_before_config_wiring(chk)
    rule_config_wiring(chk)


# ---------------------------------------------------------------------------------------------------------------
# C13.ip.context (round 6): the IP extractor as a whole, tabulated.  The registered extractor class is instantiated and its
# extract() interpreted (sa/ointerp.py; re.finditer is answered by the standard library `re` on the evaluated pattern text)
# on complete addresses embedded in punctuation / spaces / sentence ends.  Required: exactly one entity, the address itself,
# at its offset.  (Span exactness next to further digits or letters is not part of this rule.)

IP_ADDRESSES = ['10.0.0.1', '255.255.255.255', '0.0.0.0', '192.168.001.010', '::1', 'fe80::1:2', '1:2:3:4:5:6:7:8', '1::']
IP_CONTEXTS = [('', ''), ('', '.'), ('', '. '), ('', '. Next'), ('the gateway is ', '.'), ('', ','), ('', ', x'), ('(', ')'), ('x ', ' y'),
               ('', '!'), ('', '?'), ('ip: ', ''), ('', ';'), ('"', '"'), ('', '.\n'), ('see ', ').')]


def rule_ip_context(chk):
    import re as _re
    from ..ointerp import FuncRef, Native, PyExc, native
    from .c03 import super_interp_class
    ev = Ev()
    idx = ev.idx
    chk.rule('C13.ip.context', 'a complete IP address surrounded by punctuation, spaces or the end of the text is extracted as one '
                               'entity with its exact span (extract() tabulated)', floor=2, control=True)
    SI = super_interp_class()
    compiled = {}

    def mk_match(m):
        return Native({'start': native(lambda it, a, k: m.start() if not a else m.start(*a)), 'end': native(lambda it, a, k: m.end() if not a else m.end(*a)),
                       'group': native(lambda it, a, k: m.group(*a)), 'span': native(lambda it, a, k: (m.start(), m.end())),
                       'string': m.string}, 'match%r' % (m.span(),))

    def finditer(it, args, kw):
        p, s = args[0], args[1]
        if not isinstance(p, str):
            raise AnalysisError('C13.ip.context: finditer over %r, not a pattern text' % (p,))
        if p not in compiled:
            try:
                compiled[p] = _re.compile(p, _re.I | _re.S)
            except _re.error as e:
                raise AnalysisError('C13.ip.context: pattern not usable with the standard library re (%s)' % e)
        return [mk_match(m) for m in compiled[p].finditer(s)]
    hooks = {'regex.finditer': finditer, 're.finditer': finditer}

    def run_extract(ecls, fn_owner, fn, cfgn, text):
        it = SI(idx, hooks=hooks, where='%s.extract' % ecls.name, budget=600000)
        ex = it.instantiate(ecls, [cfgn], {}, None)
        out = it.call_function(FuncRef(fn_owner.mod, fn, fn_owner), [text], {}, selfobj=ex)
        return [(o.attrs.get('text'), o.attrs.get('start'), o.attrs.get('length')) for o in out]
    seen = set()
    for r in registrations(ev, SEQ_RECOGNIZER):
        e = r.args.get('extractor')
        if r.model_cls.name != 'IpAddressModel' or not (isinstance(e, ast.Call) and e.args and isinstance(e.args[0], ast.Call)):
            continue
        ecls, ccls = idx.resolve_class(r.mod, e.func), idx.resolve_class(r.mod, e.args[0].func)
        if ecls is None or ccls is None or ccls.qual in seen:
            continue
        seen.add(ccls.qual)
        table = {}
        for rv in extractor_closure(ev, ecls):
            if rv.kind == 'config':
                v = slot(ev, ccls, rv.name).value
                if not isinstance(v, str):
                    raise AnalysisError('%s.%s is not a pattern text' % (ccls.name, rv.name))
                table[rv.name] = v
        if not table:
            raise AnalysisError('%s: no configuration pattern wired' % ecls.name)
        cfgn = Native(table, '%s()' % ccls.name)
        k, fn = idx.find_method(ecls, 'extract')
        chk.consulted(k.mod.path)
        bad, n = [], 0
        for a in IP_ADDRESSES:
            for pre, suf in IP_CONTEXTS:
                text = pre + a + suf
                n += 1
                try:
                    got = run_extract(ecls, k, fn, cfgn, text)
                except PyExc as ex:
                    bad.append('%r raises %s' % (text, ex))
                    continue
                if got != [(a, len(pre), len(a))]:
                    bad.append('%r -> %s' % (text, [g[0] for g in got]))
        chk.judge(not bad, 'C13.ip.context', k.mod.path, '%s.extract under %s' % (ecls.name, ccls.name),
                  '%d texts (%d addresses x %d contexts), %d wrong%s' % (n, len(IP_ADDRESSES), len(IP_CONTEXTS), len(bad),
                                                                        (': ' + '; '.join(bad[:6])) if bad else ''),
                  '%s.extract (with %s) does not return the embedded address as one entity: %s (%d of %d texts)'
                  % (ecls.name, ccls.name, '; '.join(bad[:5]), len(bad), n), fn.lineno)
    if not seen:
        raise AnalysisError('no IP registration found')
    from ..index import Cls
    em = idx.mod(SEQ_EXTRACTORS)
    ctl = Cls(em, ast.parse("class X:\n    def __init__(self, config):\n        self.config = config\n    def extract(self, source):\n"
                            "        out = []\n        for m in re.finditer(self.config.ipv4_regex, source):\n"
                            "            if m.end() < len(source) and source[m.end()] == '.':\n                continue\n"
                            "            r = ExtractResult()\n            r.start = m.start()\n            r.length = m.end() - m.start()\n"
                            "            r.text = m.group()\n            out.append(r)\n        return out\n").body[0])
    cn = Native({'ipv4_regex': '\\b\\d+\\.\\d+\\.\\d+\\.\\d+\\b'}, 'control')
    chk.control('C13.ip.context', run_extract(ctl, ctl, ctl.methods['extract'], cn, '10.0.0.1.') == []
                and run_extract(ctl, ctl, ctl.methods['extract'], cn, '10.0.0.1') == [('10.0.0.1', 0, 8)])


_run_before_ip_context = run


def run(chk):       # noqa: F811
    _run_before_ip_context(chk)
    rule_ip_context(chk)


# ---------------------------------------------------------------------------------------------------------------
# C13.url.context (round 7): the URL patterns as wired, tabulated with their assertions taken literally.  For every registered URL
# configuration the patterns that reach the extractor (configuration slots + resource constants of the ReVal closure) are parsed
# (sa/rx.py) and run by a small backtracking matcher that, unlike rx.matches, EVALUATES look-behinds, look-aheads, ^, $ and \b
# against the carrier text.  Required (necessary for the extractor to return the URL, whatever the alternation order is): for a
# well-formed URL with a listed TLD (or an IPv4 / localhost URL) at offset s..e of a carrier text, SOME wired pattern has SOME
# match path covering exactly s..e whose Tld group is a member of the TLD list handed to the matcher (or whose IPurl group is
# non-empty).  Leftmost/greedy choice among the paths, the merging of overlapping matches and the ambiguous-time filter are not
# part of the rule (an existing path is necessary, not sufficient).

URL_REFERENCE = [  # (url template over a listed TLD {t}, may be followed directly by a closing parenthesis)
    ('example.{t}', True), ('docs.python.{t}/3/library/re.html', True), ('contoso.co.{t}/index.html?x=1', True),
    ('http://192.168.0.1/admin', True), ('http://localhost:8080/status', True),
    # scheme / www URLs also match the second general pattern, whose path class contains ')': the closing parenthesis is then
    # swallowed today (span exactness under alternation, not decided) - they are tabulated with the other carriers only
    ('http://example.{t}/a/b', False), ('https://www.bing.{t}/search?q=x', False), ('www.example.{t}', False), ('ftp://files.example.{t}/pub', False)]
URL_CONTEXTS = [('', ''), ('see ', ' for details'), ('see\n', '\nfor details'), ('see\t', ''), ('"', '"'), ("'", "'"), ('[', ']'), ('(', ')'),
                ('( ', ' )'), ('link:', ''), ('see ', ', or')]


class _StrictMatch:
    """exists-path matcher over rx trees with literal assertion semantics; captures of named groups follow the current path"""

    def __init__(self, w, ci, relaxed=()):
        self.w, self.ci, self.relaxed, self.caps = w, ci, relaxed, {}

    def ch(self, n, c):
        k = n.kind
        if k == 'any':
            if c == '\n':
                raise AnalysisError('C13.url.context: "." meets a line break (DOTALL not modelled)')
            return True
        if self.ci or k == 'cc':
            return rx._ch_match(n, c)
        if k == 'lit':
            return n.c == c
        if k == 'range':
            return n.c[0] <= c <= n.c[1]
        if k == 'class':
            r = any(self.ch(it, c) for it in n.items)
            return (not r) if n.neg else r
        raise AnalysisError('C13.url.context: not a character matcher: %s' % k)

    def _word(self, i):
        return 0 <= i < len(self.w) and (self.w[i].isalnum() or self.w[i] == '_')

    def anchor(self, n, i):
        c, w = n.c, self.w
        if c in ('^', '\\A'):
            return i == 0
        if c == '$':
            return i == len(w) or (i == len(w) - 1 and w[i] == '\n')
        if c == '\\Z':
            return i == len(w)
        if c == '\\b':
            return self._word(i - 1) != self._word(i)
        if c == '\\B':
            return self._word(i - 1) == self._word(i)
        raise AnalysisError('C13.url.context: anchor %s not modelled' % c)

    def m(self, n, i, k):
        kind = n.kind
        if kind in ('lit', 'any', 'cc', 'class', 'range'):
            return i < len(self.w) and self.ch(n, self.w[i]) and k(i + 1)
        if kind == 'seq':
            def run(ix, j):
                if ix == len(n.items):
                    return k(j)
                return self.m(n.items[ix], j, lambda j2: run(ix + 1, j2))
            return run(0, i)
        if kind == 'alt':
            return any(self.m(a, i, k) for a in n.items)
        if kind == 'group':
            if not n.name:
                return self.m(n.node, i, k)

            def cap(j):
                old = self.caps.get(n.name)
                self.caps[n.name] = (i, j)
                if k(j):
                    return True
                if old is None:
                    self.caps.pop(n.name, None)
                else:
                    self.caps[n.name] = old
                return False
            return self.m(n.node, i, cap)
        if kind == 'anchor':
            return (id(n) in self.relaxed or self.anchor(n, i)) and k(i)
        if kind == 'look':
            if id(n) in self.relaxed:
                return k(i)
            if n.dir in ('ahead', 'nahead'):
                ok = bool(self.m(n.node, i, lambda j: True))
            else:
                ok = any(self.m(n.node, j, lambda e: e == i) for j in range(i, -1, -1))
            return (ok == (n.dir in ('ahead', 'behind'))) and k(i)
        if kind == 'rep':
            def rep(cnt, j):
                if cnt >= n.lo and k(j):
                    return True
                if n.hi is not None and cnt >= n.hi:
                    return False
                return self.m(n.node, j, lambda j2: (j2 > j and rep(cnt + 1, j2)) or (j2 == j and cnt < n.lo and rep(cnt + 1, j2)))
            return rep(0, i)
        raise AnalysisError('C13.url.context: pattern element %s (%s) not modelled' % (kind, short(rx.unparse(n), 30)))


def _url_tree(pattern, what):
    import re as _re
    if _re.search(r'\(\?(>|[a-zA-Z-]+[:)])', pattern) or _re.search(r'(?<!\\)(?:[*+?]|\{\d*,?\d*\})\+', pattern):
        raise AnalysisError('C13.url.context: %s uses atomic groups, possessive repeats or inline flags (not modelled)' % what)
    try:
        return rx.parse(pattern)
    except rx.RxError as e:
        raise AnalysisError('C13.url.context: %s not analysable: %s' % (what, e))


def url_path_exists(trees, text, s, e, tlds, relaxed=()):
    """some tree of `trees` [(tree, ignorecase)] has a match path over text[s:e] with a listed Tld capture or a non-empty IPurl capture"""
    import sys
    if sys.getrecursionlimit() < 20000:
        sys.setrecursionlimit(20000)
    for tree, ci in trees:
        sm = _StrictMatch(text, ci, relaxed)

        def fin(j, sm=sm):
            if j != e:
                return False
            ip, t = sm.caps.get('IPurl'), sm.caps.get('Tld')
            return bool(ip and ip[1] > ip[0]) or (t is not None and text[t[0]:t[1]] in tlds)
        if sm.m(tree, s, fin):
            return True
    return False


def _flag_names(ev, flags):
    """names of the compile flags behind a wiring description ('uncompiled' | 'default' | text of the explicit flags)"""
    if flags == 'uncompiled':
        return set()
    if flags == 'default':
        c = ev.idx.cls('recognizers_text.utilities.RegExpUtility')
        fn = c.methods.get('get_safe_reg_exp')
        if fn is None:
            raise AnalysisError('anchor vanished: RegExpUtility.get_safe_reg_exp')
        ps = fn.args.args
        d = dict(zip([p.arg for p in ps[len(ps) - len(fn.args.defaults):]], fn.args.defaults)).get('flags')
        if d is None or not compiled_ignorecase(ev, 'default') and 'I' in ast.unparse(d):
            raise AnalysisError('RegExpUtility.get_safe_reg_exp: default flags not understood')
        flags = ast.unparse(d)
    names = set()
    for p in flags.replace('(', ' ').replace(')', ' ').split('|'):
        nm = p.strip().split('.')[-1]
        nm = {'IGNORECASE': 'I', 'DOTALL': 'S', 'UNICODE': 'U'}.get(nm, nm)
        if nm not in ('I', 'S', 'U'):
            raise AnalysisError('C13.url.context: compile flag %r not modelled' % p.strip())
        names.add(nm)
    return names


def rule_url_context(chk):
    ev = Ev()
    idx = ev.idx
    chk.rule('C13.url.context', 'a well-formed URL with a listed TLD (or an IPv4/localhost URL) at the start of the text, after white '
                                'space, a quote, an opening bracket or parenthesis or a colon is covered exactly by some match path of '
                                'some wired URL pattern, assertions evaluated against the carrier text', floor=2, control=True)
    seen = set()
    for r in registrations(ev, SEQ_RECOGNIZER):
        e = r.args.get('extractor')
        if r.model_cls.name != 'URLModel':
            continue
        if not (isinstance(e, ast.Call) and e.args and isinstance(e.args[0], ast.Call)):
            raise AnalysisError('%s:%d URL extractor is not built from a configuration object' % (r.mod.rel, r.line))
        ecls, ccls = idx.resolve_class(r.mod, e.func), idx.resolve_class(r.mod, e.args[0].func)
        if ecls is None or ccls is None:
            raise AnalysisError('%s:%d URL extractor / configuration class not resolvable' % (r.mod.rel, r.line))
        if ccls.qual in seen:
            continue
        seen.add(ccls.qual)
        chk.consulted(ecls.mod.path)
        chk.consulted(ccls.mod.path)
        # the TLD list handed to the matcher: <matcher>.init(<list of words>) in the extractor's constructor chain
        tlds = None
        for k in idx.mro(ecls):
            fn = k.methods.get('__init__')
            for n in ast.walk(fn) if fn is not None else ():
                if isinstance(n, ast.Call) and isinstance(n.func, ast.Attribute) and n.func.attr == 'init' and len(n.args) == 1:
                    try:
                        v = ev.ev(k.mod, n.args[0])
                    except Unresolved as ex:
                        raise AnalysisError('%s:%d TLD list not evaluable (%s)' % (k.mod.rel, n.lineno, ex))
                    if isinstance(v, (list, tuple)) and v and all(isinstance(x, str) for x in v):
                        tlds = set(v)
        if not tlds:
            raise AnalysisError('%s: no <matcher>.init(<TLD list>) found in the constructor chain' % ecls.name)
        plain = sorted(t for t in tlds if t.isascii() and t.isalpha() and t.islower() and 2 <= len(t) <= 6)
        use = [t for t in ('com', 'org', 'uk') if t in tlds] or plain[:2]
        if not use:
            raise AnalysisError('%s: the TLD list has no plain ASCII entry to build reference URLs from' % ecls.name)
        # wired patterns
        pats = []       # (label, pattern text, ignorecase, path, line, resource class or None, attribute or None)
        for rv in extractor_closure(ev, ecls):
            if rv.kind == 'config':
                sl = slot(ev, ccls, rv.name)
                if not isinstance(sl.value, str):
                    raise AnalysisError('%s:%d %s.%s does not evaluate to a pattern (%s)' % (sl.cls.mod.rel, sl.line, ccls.name, rv.name, sl.origin))
                inner, fl, wrapped = strip_safe_regexp(sl.expr)
                names = _flag_names(ev, 'uncompiled' if not wrapped else ('default' if fl is None else ast.unparse(fl)))
                rc = idx.resolve_class(sl.cls.mod, inner.value) if isinstance(inner, ast.Attribute) else None
                pats.append(('%s.%s = %s' % (ccls.name, rv.name, sl.origin), sl.value, 'I' in names, sl.cls.mod.path, sl.line, rc,
                             inner.attr if isinstance(inner, ast.Attribute) else None))
            elif rv.kind == 'resource':
                names = _flag_names(ev, rv.flags)
                pats.append((rv.expr, rv.pattern, 'I' in names, rv.cls.mod.path, rv.line, None, None))
            else:
                raise AnalysisError('%s:%d pattern %s of the URL extractor is not evaluable' % (rv.cls.mod.rel, rv.line, rv.expr))
        if len(pats) < 2:
            raise AnalysisError('%s: fewer than two URL patterns wired' % ecls.name)
        trees = [(_url_tree(p[1], p[0]), p[2]) for p in pats]
        bad, n = [], 0
        culprits = {}
        for tpl, paren_ok in URL_REFERENCE:
            for t in (use if '{t}' in tpl else use[:1]):
                u = tpl.replace('{t}', t)
                for pre, suf in URL_CONTEXTS:
                    if suf.startswith(')') and not paren_ok:
                        continue
                    text = pre + u + suf
                    n += 1
                    if url_path_exists(trees, text, len(pre), len(pre) + len(u), tlds):
                        continue
                    bad.append(text)
                    # which single assertion, taken as true, would let the URL through?
                    for (tree, _ci), p in zip(trees, pats):
                        for nd in rx.walk(tree):
                            if nd.kind in ('look', 'anchor') and url_path_exists([(tree, _ci)], text, len(pre), len(pre) + len(u), tlds, {id(nd)}):
                                culprits.setdefault((rx.unparse(nd), p[0]), (p, text))
        path, line, why = pats[0][3], pats[0][4], ''
        if culprits:
            (asrt, label), (p, text) = sorted(culprits.items())[0]
            path, line = p[3], p[4]
            why = '; the assertion %s of %s rejects e.g. %r' % (asrt, label, text)
            rc = p[5]
            if rc is not None:
                # name the resource constant that is this assertion (or, failing that, the pattern constant)
                vals = ev.R.values(rc)
                hit = None
                for nm, v in vals.items():
                    if isinstance(v, str):
                        try:
                            if rx.unparse(rx.parse(v)) == asrt:
                                hit = nm
                        except rx.RxError:
                            pass
                for nm in (hit, p[6]):
                    if nm:
                        k2, node = idx.class_attr(rc, nm)
                        if node is not None:
                            path, line = k2.mod.path, node.lineno
                            why += ' (%s.%s)' % (k2.name, nm)
                            break
        chk.consulted(path)
        chk.judge(not bad, 'C13.url.context', path, '%s under %s' % (ecls.name, ccls.name),
                  '%d texts (%d URL forms x %d carriers), %d without a match path%s'
                  % (n, len(URL_REFERENCE), len(URL_CONTEXTS), len(bad), (': ' + '; '.join(repr(b) for b in bad[:6])) if bad else ''),
                  'no wired URL pattern of %s (with %s) can cover the URL in %s (%d of %d texts)%s'
                  % (ecls.name, ccls.name, '; '.join(repr(b) for b in bad[:5]), len(bad), n, why), line)
    if not seen:
        raise AnalysisError('no URLModel registration found')
    good = [(_url_tree('(?<=\\s|[\'"(\\[:]|^)[a-z0-9][-a-z0-9.]{0,30}\\.(?<Tld>[a-z]{2,6})(?![a-z0-9])', 'control'), True)]
    lost = [(_url_tree('(?<=\\s|[\'"\\[:]|^)[a-z0-9][-a-z0-9.]{0,30}\\.(?<Tld>[a-z]{2,6})(?![a-z0-9])', 'control'), True)]
    chk.control('C13.url.context', url_path_exists(good, '(example.com)', 1, 12, {'com'}) and not url_path_exists(lost, '(example.com)', 1, 12, {'com'})
                and url_path_exists(lost, 'see example.com', 4, 15, {'com'}) and not url_path_exists(good, 'see example.con', 4, 15, {'com'}))


_run_before_url_context = run


def run(chk):       # noqa: F811
    _run_before_url_context(chk)
    rule_url_context(chk)


# ---------------------------------------------------------------------------------------------------------------
# C13.cjk-routing (round 7): the model getters of SequenceRecognizer, tabulated over the culture codes (contradiction between
# siblings).  Every get_*_model method is interpreted (the evaluator C17 uses: self.get_model recorded, helpers inlined) for every
# supported culture code in three letter cases and one regional variant per language; the culture it hands to get_model is mapped
# by the reference decision table of map_to_nearest_language (C17.map decides that the code agrees with it) and looked up in the
# registration table.  Required: when a getter's request for culture c ends at NO registration of its model type (only the English
# fallback is left), no sibling getter sends the same c to a culture t for which this getter's model type IS registered - the
# siblings then disagree on whether c needs t's (CJK-aware) configuration, and the one that falls back recognises addresses / URLs /
# numbers only between the word boundaries of English text.  Not decided: whether a prefix all siblings share is the right one.

def rule_cjk_routing(chk, _getters=None):
    from .c17 import Routing, culture_inputs, getter_route, getters_of, reference_map
    ev = Ev()
    idx = ev.idx
    chk.rule('C13.cjk-routing', 'a model getter does not leave a culture to the English fallback that a sibling getter sends to a culture '
                                'its own model type is registered for', floor=5, control=True)
    rt = Routing(idx)
    rc = idx.cls(SEQ_RECOGNIZER)
    regs = set()
    for r in registrations(ev, SEQ_RECOGNIZER):
        if not isinstance(r.culture, str):
            raise AnalysisError('%s:%d culture of a registration is not a string' % (r.mod.rel, r.line))
        regs.add((r.model, r.culture.lower()))
    supported = rt.supported_codes()
    probes = [c for c in culture_inputs(rt) if isinstance(c, str) and c]
    if len(probes) < 20:
        raise AnalysisError('C13.cjk-routing: only %d culture probes' % len(probes))

    def table(getters):
        rows = {}
        for k, fn in getters:
            row = {}
            for c in probes:
                name, cult, _fb = getter_route(rt, k, fn, c)
                if not isinstance(name, str) or not isinstance(cult, str):
                    raise AnalysisError('%s:%d %s.%s(%r) asks for %r / %r: not a (name, culture) request'
                                        % (k.mod.rel, fn.lineno, k.name, fn.name, c, name, cult))
                eff = reference_map(cult, supported)
                row[c] = (name, eff, (name, eff) in regs)
            rows[fn.name] = (k, fn, row)
        return rows

    def disagreements(rows):
        out = {}
        for g, (k, fn, row) in rows.items():
            for c in probes:
                name, eff, hit = row[c]
                if hit:
                    continue
                for h, (_k, _fn, hrow) in rows.items():
                    _hn, t, hhit = hrow[c]
                    if h != g and hhit and t != eff and (name, t) in regs:
                        out.setdefault(g, {}).setdefault((c.lower(), t), set()).add(h)
        return out

    getters = getters_of(rt, rc)
    if len(getters) < 3:
        raise AnalysisError('%s: only %d model getters found' % (rc.name, len(getters)))
    chk.consulted(rc.mod.path)
    rows = table(getters)
    dis = disagreements(rows)
    for g, (k, fn, row) in sorted(rows.items()):
        name = sorted({v[0] for v in row.values()})
        routed = sorted({'%s->%s' % (c.lower(), v[1]) for c, v in row.items() if v[2] and v[1] != reference_map(c, supported)})
        d = dis.get(g, {})
        what = '; '.join('%s falls back, %s send it to %s' % (c, '/'.join(sorted(hs)), t) for (c, t), hs in sorted(d.items()))
        chk.judge(not d, 'C13.cjk-routing', k.mod.path, '%s.%s' % (rc.name, fn.name),
                  '%s: redirected %s%s' % ('/'.join(name), ', '.join(routed) or 'nothing', ('; ' + what) if d else ''),
                  '%s.%s leaves a culture without a %s registration to the English fallback although sibling getters route it to a '
                  'culture %s is registered for: %s' % (rc.name, fn.name, '/'.join(name), '/'.join(name), what), fn.lineno)
    # control: a sibling pair that disagrees on ja-*
    cm = ast.parse("class SequenceRecognizer:\n"
                   "    def get_a_model(self, culture=None, fallback_to_default_culture=True):\n"
                   "        if culture and culture.lower().startswith(('zh-', 'ja-')):\n"
                   "            return self.get_model('URLModel', Culture.Chinese, fallback_to_default_culture)\n"
                   "        return self.get_model('URLModel', culture, fallback_to_default_culture)\n"
                   "    def get_b_model(self, culture=None, fallback_to_default_culture=True):\n"
                   "        if culture and culture.lower().startswith(('zh-', 'jp-')):\n"
                   "            return self.get_model('IpAddressModel', Culture.Chinese, fallback_to_default_culture)\n"
                   "        return self.get_model('IpAddressModel', culture, fallback_to_default_culture)\n").body[0]
    fired = False
    if {('URLModel', 'zh-cn'), ('IpAddressModel', 'zh-cn')} <= regs:
        ctl = disagreements(table([(rc, f) for f in cm.body]))
        fired = set(ctl) == {'get_b_model'} and all(c.startswith('ja') for c, _t in ctl['get_b_model'])
    chk.control('C13.cjk-routing', fired)


_run_before_cjk_routing = run


def run(chk):       # noqa: F811
    _run_before_cjk_routing(chk)
    rule_cjk_routing(chk)
