"""C15 - TIMEX resolution and constraint solving only return correct, valid values (range and provenance rules).

All rules read the AST of the datatype package (datatypes_timex_expression, without english/); nothing is imported
or executed.  Small pure integer helpers (weekday arithmetic, interval overlap) are decided by evaluating their
*syntax trees* with a tiny evaluator over an exhaustive finite domain.

  C15.range       calendar-field range rule: month / day_of_week arithmetic must not reach a month / day_of_week sink
                  without a wrap (test against a constant, % period, divmod)
  C15.provenance  a (year, month, day) triple takes month and day from the same object
  C15.seconds     TimexValue.duration_value, run for every unit on whole and fractional probe amounts, equals amount x
                  reference seconds (no truncation before scaling)
  C15.attr        attribute reads / writes / constructor keywords on values of a known class name something the class
                  defines; other attribute names must exist somewhere in the package or on datetime/builtins
  C15.guard       `x.a if x.b is not None else c` (and `if x.b is not None: return ..x.a..`) reads the field it guards
  C15.weekday     date_of_last_day / date_of_next_day are exact on all 7x7 inputs; last_/next_date_value and the range
                  resolver hand them day_of_week - 1 and the right sibling
  C15.halfopen    constraint membership is start <= x < end; dates_matching_day, run on 392 probes, yields exactly the
                  days of the weekday in [start, end)
  C15.monthend    month_date_range / year_date_range / expand_datetime_range / timex_date_add(months) run for every month:
                  the end is the first day of the following month, the year is carried when the month wraps
  C15.overlap     is_overlapping of DateRange and TimeRange equals interval overlap on an exhaustive small domain;
                  collapse_overlapping is (max start, min end)
  C15.remove      inner_collapse removes exactly the two collapsed elements
  C15.carry       carry thresholds on hour / minute / second are the field maxima
  C15.alias       attribute stores in timex_range_resolver / timex_constraints_helper / timex_helpers go to objects made
                  in the same function (constructor, copy, clone), never to a parameter or an alias of one
  C15.timeparts   Time.from_seconds(Time(h,m,s).get_time()) = (h,m,s) on a grid (object interpreter)
  C15.owntime     resolve_by_time_constraints keeps a candidate's own time of day (object interpreter, single candidates)
  C15.dictkeys    no dict literal of the package repeats a constant key (Python keeps the last entry silently)
"""
import ast
import builtins
import itertools

from ..core import AnalysisError
from ..index import get_index

LEVEL = 'other'
DESIGN_REF = 'DESIGN.md#c15'
META = {
    'text': 'TIMEX resolution/constraint solving, structural clauses: month and weekday arithmetic reaches a calendar '
            'field only through a wrap; (year, month, day) triples are not mixed from two date objects; the '
            'duration seconds table equals the reference; attribute names used on Timex/Time/range values exist; '
            'conditional reads use the field they guard; weekday helpers are exact for all 49 (day, weekday) pairs and '
            'last/next callers pass day_of_week-1 to the right sibling; constraint membership is half-open and '
            'dates_matching_day equals {d in [start,end): weekday(d)=day} on 392 probes; month ranges and month addition '
            'evaluated for every month (year carried on wrap); '
            'Time.from_seconds inverts get_time on a grid of clock times; resolve_by_time_constraints never replaces a '
            'candidate\'s own time of day (both run with the object interpreter); '
            'resolver modules write only into objects made in the same function (never into a parameter or an alias '
            'of one); no dict literal repeats a constant key; '
            'is_overlapping equals interval overlap and collapse is (max start, min end) on an exhaustive small '
            'domain; inner_collapse removes the collapsed pair; carry thresholds are field maxima.',
    'note': 'Not decided: whether a caller actually reuses an object the resolver wrote into (C15.alias is an ownership '
            'discipline for the three resolver modules, not a proof of interference); which days a constraint set '
            'admits beyond the above (intersection/union policy of collapse), '
            'termination of collapse in general, TimexCreator constants, the english/ converters, arithmetic on '
            'hour/minute that is only ever compared (TimexHelpers.add_time builds range ends beyond 24:00 on '
            'purpose), dates_matching_day for start > end (the range constructors never produce it; the shipped '
            'loop would not end), TimexValue.date_value (abstracted as the Timex it prints). Kinds of values are inferred from annotations, constructor calls, clone/copy and package '
            'call sites only; an attribute on a value of unknown kind is only checked against the union of all '
            'attribute names. The range rule accepts any test of the field against a constant as a wrap.',
    'technique': 'ast: sink/source rules with flow-insensitive local resolution, light inter-procedural kind '
                 'inference, syntax-tree evaluation of pure integer helpers over exhaustive finite domains',
}

PKG = 'datatypes_timex_expression'
MODS = ('timex', 'time', 'timex_resolver', 'timex_range_resolver', 'timex_helpers', 'timex_value',
        'timex_date_helpers', 'timex_constraints_helper', 'date_range', 'time_range', 'timex_range', 'timex_creator',
        'timex_constants', 'resolution', 'timex_set')
# reference seconds table (365-day year, 30-day month)
SECONDS = {'years': 31536000, 'months': 2592000, 'weeks': 604800, 'days': 86400, 'hours': 3600, 'minutes': 60,
           'seconds': 1}
PERIOD = {'month': 12, 'day_of_week': 7}
FIELD_MAX = {'hour': 23, 'minute': 59, 'second': 59}
DATETIME_ATTRS = set(dir(__import__('datetime').datetime)) | set(dir(__import__('datetime').date))
TIMEDELTA_ATTRS = set(dir(__import__('datetime').timedelta))
BUILTIN_ATTRS = set()
for _t in (str, list, dict, set, tuple, int, float, filter, map):
    BUILTIN_ATTRS |= {a for a in dir(_t) if not a.startswith('__')}


def chain(node):
    parts = []
    while isinstance(node, ast.Attribute):
        parts.append(node.attr)
        node = node.value
    if isinstance(node, ast.Name):
        parts.append(node.id)
        return '.'.join(reversed(parts))
    return None


def params_of(fn):
    return [a.arg for a in fn.args.posonlyargs + fn.args.args]


def const_int(n):
    return n.value if isinstance(n, ast.Constant) and isinstance(n.value, int) and not isinstance(n.value, bool) else None


class Ctx:
    def __init__(self, chk):
        self.chk = chk
        self.idx = get_index()
        self.mods = {}
        for name in MODS:
            m = self.idx.mod(PKG + '.' + name)
            self.mods[name] = m
            chk.consulted(m.path)
        self.classes = {}
        for m in self.mods.values():
            for c in m.classes.values():
                if c.name in self.classes:
                    raise AnalysisError('class name %s defined twice in the package' % c.name)
                self.classes[c.name] = c

    def cls(self, name):
        if name not in self.classes:
            raise AnalysisError('anchor vanished: class %s' % name)
        return self.classes[name]

    def meth(self, cname, mname):
        c = self.cls(cname)
        if mname not in c.methods:
            raise AnalysisError('anchor vanished: %s.%s' % (cname, mname))
        return c.methods[mname]

    def functions(self):
        """(Mod, Cls, FunctionDef) over the modules in scope, setters included"""
        for m in self.mods.values():
            for c in m.classes.values():
                for st in c.node.body:
                    if isinstance(st, ast.FunctionDef):
                        yield m, c, st
            for f in m.funcs.values():
                yield m, None, f


def qual(c, fn):
    return '%s.%s' % (c.name, fn.name) if c else fn.name


def local_defs(fn):
    """name -> list of value expressions assigned to it anywhere in fn (flow-insensitive)"""
    d = {}
    for n in ast.walk(fn):
        if isinstance(n, ast.Assign):
            for t in n.targets:
                if isinstance(t, ast.Name):
                    d.setdefault(t.id, []).append(n.value)
                elif isinstance(t, ast.Tuple) and isinstance(n.value, ast.Call) and chain(n.value.func) == 'divmod':
                    for e in t.elts:
                        if isinstance(e, ast.Name):
                            d.setdefault(e.id, []).append(n.value)
        elif isinstance(n, ast.AnnAssign) and isinstance(n.target, ast.Name) and n.value is not None:
            d.setdefault(n.target.id, []).append(n.value)
        elif isinstance(n, ast.AugAssign) and isinstance(n.target, ast.Name):
            d.setdefault(n.target.id, []).append(ast.BinOp(left=ast.Name(id=n.target.id, ctx=ast.Load()), op=n.op,
                                                           right=n.value))
    return d


def parents_of(fn):
    par = {}
    for n in ast.walk(fn):
        for ch in ast.iter_child_nodes(n):
            par[ch] = n
    return par


# ---------------------------------------------------------------------------------------------------
# C15.range

def field_kind(e, field, defs, fparams, depth=0):
    """is expression e (syntactically) a value of calendar field `field`?"""
    if isinstance(e, ast.Attribute) and e.attr == field:
        return True
    if isinstance(e, ast.Name):
        if e.id == field and e.id in fparams:
            return True
        if depth < 4:
            return any(field_kind(v, field, defs, fparams, depth + 1) for v in defs.get(e.id, [])
                       if not (isinstance(v, ast.BinOp) and isinstance(v.left, ast.Name) and v.left.id == e.id))
    if isinstance(e, ast.Call) and chain(e.func) == 'int' and len(e.args) == 1:
        return field_kind(e.args[0], field, defs, fparams, depth)
    return False


def classify(e, field, defs, fparams, depth=0, seen=None):
    """'plain' | 'arith' | 'wrapped' for the value written to a `field` sink"""
    period = PERIOD[field]
    seen = seen or set()
    res = 'plain'

    def join(a, b):
        order = {'plain': 0, 'arith': 1, 'wrapped': 2}
        return a if order[a] >= order[b] else b

    for n in ast.walk(e):
        if isinstance(n, ast.BinOp) and isinstance(n.op, (ast.Mod, ast.FloorDiv)) and const_int(n.right) == period:
            return 'wrapped'
        if isinstance(n, ast.Call) and chain(n.func) == 'divmod' and len(n.args) == 2 and const_int(n.args[1]) == period:
            return 'wrapped'
        if isinstance(n, ast.IfExp) and test_on_field(n.test, field, defs, fparams):
            return 'wrapped'
        if isinstance(n, ast.BinOp) and isinstance(n.op, (ast.Add, ast.Sub)) and (
                field_kind(n.left, field, defs, fparams) or field_kind(n.right, field, defs, fparams)):
            res = join(res, 'arith')
        if isinstance(n, ast.Name) and n.id not in seen and depth < 4:
            seen.add(n.id)
            for v in defs.get(n.id, []):
                sub = classify(v, field, defs, fparams, depth + 1, seen)
                if sub == 'wrapped':
                    return 'wrapped'
                res = join(res, sub)
    return res


def test_on_field(test, field, defs, fparams):
    """does the test compare a `field`-kind expression with an int constant?"""
    for n in ast.walk(test):
        if isinstance(n, ast.Compare):
            sides = [n.left] + n.comparators
            if any(const_int(s) is not None for s in sides) and any(
                    field_kind(s, field, defs, fparams) or
                    (isinstance(s, ast.BinOp) and (field_kind(s.left, field, defs, fparams) or
                                                   field_kind(s.right, field, defs, fparams))) for s in sides):
                return True
    return False


def range_sinks(fn):
    """(field, value expr or None, node, description, is_aug)"""
    out = []
    for n in ast.walk(fn):
        if isinstance(n, ast.Call):
            for kw in n.keywords:
                if kw.arg in PERIOD:
                    out.append((kw.arg, kw.value, n, '%s(%s=...)' % (chain(n.func) or '?', kw.arg), False))
            if chain(n.func) in ('date', 'datetime', 'datetime.date', 'datetime.datetime') and len(n.args) >= 2:
                out.append(('month', n.args[1], n, '%s(_, month, _)' % chain(n.func), False))
        elif isinstance(n, ast.Assign):
            for t in n.targets:
                if isinstance(t, ast.Attribute) and t.attr in PERIOD:
                    out.append((t.attr, n.value, n, '%s = ...' % chain(t), False))
        elif isinstance(n, ast.AugAssign) and isinstance(n.target, ast.Attribute) and n.target.attr in PERIOD:
            out.append((n.target.attr, n.value, n, '%s %s= ...' % (chain(n.target), type(n.op).__name__), True))
    return out


def judge_sink(fn, field, value, node, is_aug, defs, fparams, par):
    """-> (verdict, normal form)"""
    if is_aug:
        kind = 'arith' if isinstance(node.op, (ast.Add, ast.Sub)) else 'plain'
        if isinstance(node.op, ast.Mod) and const_int(node.value) == PERIOD[field]:
            kind = 'wrapped'
    else:
        kind = classify(value, field, defs, fparams)
    if kind != 'arith':
        return True, kind
    # dominated by a test of the field against a constant?
    p = par.get(node)
    while p is not None and p is not fn:
        if isinstance(p, (ast.If, ast.While, ast.IfExp)) and test_on_field(p.test, field, defs, fparams):
            return True, 'arith under test'
        p = par.get(p)
    # guarded by an earlier `if <test on field>: return/raise/continue/break`
    for n in ast.walk(fn):
        if isinstance(n, ast.If) and n.lineno < node.lineno and n.body \
                and isinstance(n.body[-1], (ast.Return, ast.Raise, ast.Continue, ast.Break)) \
                and test_on_field(n.test, field, defs, fparams):
            return True, 'arith after guarding test'
    # normalised afterwards: a later test of the written attribute against a constant
    tgt = None
    if isinstance(node, ast.Assign):
        tgt = chain(node.targets[0])
    elif isinstance(node, ast.AugAssign):
        tgt = chain(node.target)
    if tgt:
        for n in ast.walk(fn):
            if isinstance(n, (ast.If, ast.While)) and n.lineno > node.lineno:
                for c in ast.walk(n.test):
                    if isinstance(c, ast.Compare) and any(chain(s) == tgt for s in [c.left] + c.comparators) \
                            and any(const_int(s) is not None for s in [c.left] + c.comparators):
                        return True, 'arith, normalised afterwards'
    return False, 'arith without wrap'


def rule_range(cx, chk):
    n = 0
    for m, c, fn in cx.functions():
        sinks = range_sinks(fn)
        if not sinks:
            continue
        defs = local_defs(fn)
        fparams = set(params_of(fn))
        par = parents_of(fn)
        for field, value, node, desc, is_aug in sinks:
            ok, nf = judge_sink(fn, field, value, node, is_aug, defs, fparams, par)
            n += 1
            vtxt = ast.unparse(value) if value is not None else ''
            construct = '%s: %s' % (qual(c, fn), desc)
            if ok:
                chk.ok('C15.range', m.path, construct, nf, node.lineno)
            else:
                chk.bad('C15.range', m.path, construct, '%s: %s' % (nf, norm_expr(value, is_aug, node)),
                        '%s receives %s%s: %s arithmetic without a wrap at %d (no test against a constant, no %% %d, no '
                        'divmod) - the field leaves its calendar range'
                        % (desc, '(+= / -=) ' if is_aug else '', vtxt, field, PERIOD[field], PERIOD[field]), node.lineno)
    # positive control
    ctl = ast.parse("def f(year, month):\n    return Timex(year=year, month=month + 1, day_of_month=1)\n").body[0]
    s = range_sinks(ctl)
    fired = any(not judge_sink(ctl, f, v, nd, a, local_defs(ctl), set(params_of(ctl)), parents_of(ctl))[0]
                for f, v, nd, d, a in s)
    good = ast.parse("def f(year, month):\n    if month == 12:\n        return Timex(year=year + 1, month=1)\n"
                     "    return Timex(year=year, month=month + 1)\n").body[0]
    fired = fired and all(judge_sink(good, f, v, nd, a, local_defs(good), set(params_of(good)), parents_of(good))[0]
                          for f, v, nd, d, a in range_sinks(good))
    chk.control('C15.range', fired)


def norm_expr(value, is_aug, node):
    if is_aug:
        return '%s= %s' % ({ast.Add: '+', ast.Sub: '-'}.get(type(node.op), '?'), ast.unparse(node.value))
    return ast.unparse(value)


# ---------------------------------------------------------------------------------------------------
# C15.provenance

DAYS = ('day', 'day_of_month')


def base_of(e, attrs):
    """object a calendar component is read from: X in X.year / int(X.year) / X.year - 1 / (X.year if .. else ..)"""
    if isinstance(e, ast.Attribute) and e.attr in attrs:
        return chain(e.value) or ast.unparse(e.value), e.attr
    if isinstance(e, ast.Call) and chain(e.func) == 'int' and len(e.args) == 1:
        return base_of(e.args[0], attrs)
    if isinstance(e, ast.BinOp):
        l, r = base_of(e.left, attrs), base_of(e.right, attrs)
        return l if l[0] else r
    if isinstance(e, ast.IfExp):
        l, r = base_of(e.body, attrs), base_of(e.orelse, attrs)
        return l if l[0] else r
    return None, None


def triples(fn):
    """(year expr, month expr, day expr, node, description) for constructor calls and store groups"""
    out = []
    for n in ast.walk(fn):
        if isinstance(n, ast.Call):
            kws = {k.arg: k.value for k in n.keywords if k.arg}
            ch = chain(n.func) or ''
            if 'month' in kws and ('day_of_month' in kws or 'day' in kws):
                out.append((kws.get('year'), kws['month'], kws.get('day_of_month', kws.get('day')), n, ch + '(...)'))
            elif ch.split('.')[-1] in ('date', 'datetime') and len(n.args) >= 3:
                out.append((n.args[0], n.args[1], n.args[2], n, ch + '(y, m, d)'))
    # store groups per block and target
    for n in ast.walk(fn):
        for blk in ('body', 'orelse', 'finalbody'):
            stmts = getattr(n, blk, None)
            if not isinstance(stmts, list):
                continue
            groups = {}
            for st in stmts:
                if isinstance(st, ast.Assign) and len(st.targets) == 1 and isinstance(st.targets[0], ast.Attribute):
                    t = st.targets[0]
                    if t.attr in ('year', 'month', 'day_of_month', 'day'):
                        groups.setdefault(chain(t.value) or ast.unparse(t.value), {})[t.attr] = st
            for tgt, g in groups.items():
                d = g.get('day_of_month') or g.get('day')
                if 'month' in g and d is not None:
                    y = g.get('year')
                    out.append((y.value if y else None, g['month'].value, d.value, g['month'], tgt + '.{year,month,day} ='))
    return out


def judge_triple(y, m, d):
    mb, _ = base_of(m, ('month',))
    db, dattr = base_of(d, DAYS)
    yb, _ = base_of(y, ('year',)) if y is not None else (None, None)
    nf = 'year<-%s month<-%s day<-%s' % (yb or '?', mb or '?', db or '?')
    if mb and db and mb != db:
        return False, nf
    return True, nf


def rule_provenance(cx, chk):
    for m, c, fn in cx.functions():
        for y, mo, d, node, desc in triples(fn):
            ok, nf = judge_triple(y, mo, d)
            construct = '%s: %s' % (qual(c, fn), desc)
            if ok:
                chk.ok('C15.provenance', m.path, construct, nf, node.lineno)
            else:
                chk.bad('C15.provenance', m.path, construct, nf,
                        'a date is assembled from the month of one object and the day of another (%s): wrong whenever '
                        'the two lie in different months' % nf, node.lineno)
    ctl = ast.parse("def f(a, b):\n    return Timex(year=a.year, month=a.month, day_of_month=b.day)\n").body[0]
    chk.control('C15.provenance', any(not judge_triple(y, mo, d)[0] for y, mo, d, _, _ in triples(ctl)))


# ---------------------------------------------------------------------------------------------------
# C15.seconds and C15.guard

def reads_of(e, base):
    return [n.attr for n in ast.walk(e) if isinstance(n, ast.Attribute) and chain(n.value) == base]


def none_test(test):
    """`X.b is not None` -> (base, b, True) ; `X.b is None` -> (base, b, False) ; else None"""
    if isinstance(test, ast.Compare) and len(test.ops) == 1 and isinstance(test.left, ast.Attribute) \
            and isinstance(test.comparators[0], ast.Constant) and test.comparators[0].value is None \
            and chain(test.left.value):
        if isinstance(test.ops[0], (ast.IsNot, ast.NotEq)):
            return chain(test.left.value), test.left.attr, True
        if isinstance(test.ops[0], (ast.Is, ast.Eq)):
            return chain(test.left.value), test.left.attr, False
    return None


def const_product(e, base):
    """value of the form  k1 * k2 * X.f  (any order) -> (product, f) ; str(...) / int(...) wrappers stripped"""
    while isinstance(e, ast.Call) and chain(e.func) in ('str', 'int', 'float', 'Decimal') and len(e.args) == 1:
        e = e.args[0]
    if isinstance(e, ast.Attribute) and chain(e.value) == base:
        return 1, e.attr
    if isinstance(e, ast.BinOp) and isinstance(e.op, ast.Mult):
        l, r = const_product(e.left, base), const_product(e.right, base)
        lc, rc = const_fold(e.left), const_fold(e.right)
        if l and rc is not None:
            return l[0] * rc, l[1]
        if r and lc is not None:
            return r[0] * lc, r[1]
    return None


def const_fold(e):
    if const_int(e) is not None:
        return const_int(e)
    if isinstance(e, ast.BinOp) and isinstance(e.op, ast.Mult):
        l, r = const_fold(e.left), const_fold(e.right)
        if l is not None and r is not None:
            return l * r
    return None


SECONDS_PROBES = ('1', '3', '0.5', '1.5', '2.25', '90')


def rule_seconds(cx, chk):
    """TimexValue.duration_value, run on a Timex with exactly one duration field set: the value must be the amount
    times the reference number of seconds, as a number ('129600' and '129600.0' are the same) - for whole and for
    fractional amounts, i.e. the amount is not truncated or rounded before it is scaled"""
    import decimal
    c = cx.cls('TimexValue')
    fn = cx.meth('TimexValue', 'duration_value')
    timex_cls = cx.cls('Timex')
    for unit, secs in SECONDS.items():
        bad = None
        first = None
        for probe in SECONDS_PROBES:
            amount = decimal.Decimal(probe)
            t = Ev(cx, timex_cls.mod).construct(timex_cls, [], {unit: amount})
            try:
                args = [t] if len(params_of(fn)) == 1 else [None, t]
                got = Ev(cx, c.mod).run(fn, args)
            except EvalError as ex:
                raise AnalysisError('TimexValue.duration_value: not evaluable for %s=%s (%s)' % (unit, probe, ex))
            want = amount * secs
            try:
                ok = got is not None and got != '' and decimal.Decimal(str(got)) == want
            except decimal.InvalidOperation:
                ok = False
            if first is None:
                first = got
            if not ok and bad is None:
                bad = (probe, got, want)
        chk.judge(bad is None, 'C15.seconds', c.mod.path, 'TimexValue.duration_value[%s]' % unit,
                  '%s s per unit, exact for %s' % (first, ','.join(SECONDS_PROBES)) if bad is None else
                  '%s=%s -> %r' % ((unit,) + bad[:2]),
                  'duration_value of %s=%s is %r; one %s is %d seconds, so the value must be %s (amounts may be fractional: '
                  'no truncation or rounding before scaling)' % ((unit,) + (bad[:2] if bad else ('', '')) +
                                                                 (unit[:-1], secs, bad[2] if bad else '')), fn.lineno)


def guard_sites(fn):
    """(base, guarded field, reads in the guarded expression, node)"""
    out = []
    for n in ast.walk(fn):
        if isinstance(n, ast.IfExp):
            t = none_test(n.test)
            if t:
                base, fld, positive = t
                e = n.body if positive else n.orelse
                out.append((base, fld, reads_of(e, base), n))
        elif isinstance(n, ast.If) and len(n.body) == 1 and isinstance(n.body[0], ast.Return) \
                and n.body[0].value is not None:
            t = none_test(n.test)
            if t and t[2]:
                out.append((t[0], t[1], reads_of(n.body[0].value, t[0]), n))
    return out


def rule_guard(cx, chk):
    for m, c, fn in cx.functions():
        for base, fld, reads, node in guard_sites(fn):
            if not reads:
                continue
            construct = '%s: %s.%s is not None' % (qual(c, fn), base, fld)
            chk.judge(fld in reads, 'C15.guard', m.path, construct, 'reads ' + ','.join(sorted(set(reads))),
                      'the None test is on %s.%s but the guarded expression reads %s: the value used is not the one '
                      'that was tested' % (base, fld, ', '.join('%s.%s' % (base, r) for r in sorted(set(reads)))),
                      node.lineno)
    ctl = ast.parse("def f(a, d):\n    return a.x + (d.second if d.seconds is not None else 0)\n").body[0]
    chk.control('C15.guard', any(fld not in reads for _, fld, reads, _ in guard_sites(ctl)))


# ---------------------------------------------------------------------------------------------------
# C15.attr : kinds and attribute universe

def class_attrs(cx, c):
    s = set(c.attrs)
    for st in c.node.body:
        if isinstance(st, ast.AnnAssign) and isinstance(st.target, ast.Name):
            s.add(st.target.id)
        elif isinstance(st, ast.FunctionDef):
            s.add(st.name)
            for n in ast.walk(st):
                if isinstance(n, (ast.Assign, ast.AugAssign, ast.AnnAssign)):
                    tg = n.targets if isinstance(n, ast.Assign) else [n.target]
                    for t in tg:
                        if isinstance(t, ast.Attribute) and chain(t.value) == 'self':
                            s.add(t.attr)
    for b in cx.idx.bases(c):
        s |= class_attrs(cx, b)
    return s


class Kinds:
    """light kind inference: which package class (or 'datetime') a local name holds"""

    def __init__(self, cx):
        self.cx = cx
        self.ret = {}          # (cls name, method) -> kind
        self.param = {}        # (cls name, method, param) -> set of kinds seen at call sites
        self.funcs = {(c.name if c else None, fn.name): (m, c, fn) for m, c, fn in cx.functions()}
        for _ in range(5):
            self.round()
        self._prev = self.param

    def ann_kind(self, ann):
        if ann is None:
            return None
        ch = chain(ann)
        if ch in self.cx.classes:
            return ch
        if ch in ('datetime', 'date', 'datetime.datetime', 'datetime.date'):
            return 'datetime'
        return None

    def expr_kind(self, e, env):
        if isinstance(e, ast.Name):
            return env.get(e.id)
        if isinstance(e, ast.Call):
            ch = chain(e.func) or ''
            last = ch.split('.')[-1]
            if ch in self.cx.classes:
                return ch
            if ch in ('datetime', 'date'):
                return 'datetime'
            if ch in ('cls',):
                return env.get('cls#')
            if last == 'clone' and isinstance(e.func, ast.Attribute):
                return self.expr_kind(e.func.value, env)
            if ch in ('copy.copy', 'copy.deepcopy', 'copy', 'deepcopy') and len(e.args) == 1:
                return self.expr_kind(e.args[0], env)
            if ch in ('datetime.now', 'datetime.today', 'date.today'):
                return 'datetime'
            if isinstance(e.func, ast.Attribute) and isinstance(e.func.value, ast.Name):
                owner = e.func.value.id
                if owner in self.cx.classes:
                    return self.ret.get((owner, last))
                if owner in ('self', 'cls') and env.get('cls#'):
                    return self.ret.get((env['cls#'], last))
            if isinstance(e.func, ast.Attribute) and chain(e.func.value):
                # module-qualified class method: timex_helpers.TimexHelpers.f(...)
                parts = ch.split('.')
                if len(parts) >= 2 and parts[-2] in self.cx.classes:
                    return self.ret.get((parts[-2], last))
        if isinstance(e, ast.BinOp) and isinstance(e.op, (ast.Add, ast.Sub)):
            l = self.expr_kind(e.left, env)
            if l == 'datetime' and isinstance(e.op, ast.Add):
                return 'datetime'
            if l == 'datetime' and isinstance(e.right, ast.Call) and (chain(e.right.func) or '').endswith('timedelta'):
                return 'datetime'
        if isinstance(e, ast.IfExp):
            a, b = self.expr_kind(e.body, env), self.expr_kind(e.orelse, env)
            return a if a == b else None
        return None

    def env_of(self, c, fn):
        env = {}
        if c:
            env['cls#'] = c.name
        ps = fn.args.posonlyargs + fn.args.args
        for a in ps:
            k = self.ann_kind(a.annotation)
            if k is None:
                seen = getattr(self, '_prev', self.param).get((c.name if c else None, fn.name, a.arg))
                if seen and len(seen) == 1 and None not in seen:
                    k = next(iter(seen))
                elif seen and seen - {None} == {'Timex'}:
                    k = 'Timex'        # optimistic: every call site of known kind passes a Timex
            if a.arg == 'self' and c:
                k = c.name
            env[a.arg] = k
        # locals: kind only when every assignment agrees
        for _ in range(3):
            cand = {}
            for n in ast.walk(fn):
                if isinstance(n, ast.Assign):
                    for t in n.targets:
                        if isinstance(t, ast.Name):
                            cand.setdefault(t.id, []).append(self.expr_kind(n.value, env))
                elif isinstance(n, ast.AugAssign) and isinstance(n.target, ast.Name):
                    cand.setdefault(n.target.id, []).append(self.expr_kind(
                        ast.BinOp(left=ast.Name(id=n.target.id, ctx=ast.Load()), op=n.op, right=n.value), env))
                elif isinstance(n, (ast.For, ast.comprehension)):
                    for t in ast.walk(n.target):
                        if isinstance(t, ast.Name):
                            cand.setdefault(t.id, []).append(None)
                elif isinstance(n, ast.With):
                    for it in n.items:
                        if it.optional_vars is not None:
                            for t in ast.walk(it.optional_vars):
                                if isinstance(t, ast.Name):
                                    cand.setdefault(t.id, []).append(None)
                elif isinstance(n, ast.Lambda):
                    for a in n.args.args:
                        cand.setdefault(a.arg, []).append(None)
            for name, ks in cand.items():
                is_param = name in [a.arg for a in ps]
                kinds = set(ks) | ({env.get(name)} if is_param else set())
                env[name] = next(iter(kinds)) if len(kinds) == 1 else None
        return env

    def round(self):
        prev, self.param = self.param, {}
        self._prev = prev
        for (cn, fname), (m, c, fn) in self.funcs.items():
            env = self.env_of(c, fn)
            rets = [self.expr_kind(n.value, env) for n in ast.walk(fn) if isinstance(n, ast.Return) and n.value is not None]
            self.ret[(cn, fname)] = rets[0] if rets and len(set(rets)) == 1 else None
            for n in ast.walk(fn):
                if isinstance(n, ast.Call) and isinstance(n.func, ast.Attribute):
                    parts = (chain(n.func) or '').split('.')
                    if len(parts) >= 2 and (parts[-2] in self.cx.classes or (parts[-2] in ('self', 'cls') and c)):
                        owner = parts[-2] if parts[-2] in self.cx.classes else c.name
                        tgt = self.funcs.get((owner, parts[-1]))
                        if not tgt:
                            continue
                        ps = params_of(tgt[2])
                        if ps and ps[0] in ('self', 'cls') and not (parts[-2] in self.cx.classes and len(n.args) == len(ps)):
                            ps = ps[1:]
                        for p, a in zip(ps, n.args):
                            self.param.setdefault((owner, parts[-1], p), set()).add(self.expr_kind(a, env))


def rule_attr(cx, chk):
    attrs = {name: class_attrs(cx, c) for name, c in cx.classes.items()}
    attrs['datetime'] = DATETIME_ATTRS
    universe = set().union(*attrs.values()) | TIMEDELTA_ATTRS | BUILTIN_ATTRS
    kinds = Kinds(cx)
    timex_init = params_of(cx.meth('Timex', '__init__'))[1:]
    strict = loose = 0

    def check(m, c, fn):
        nonlocal strict, loose
        env = kinds.env_of(c, fn)
        fparams = set(params_of(fn))
        localnames = set(env) | {n.id for n in ast.walk(fn) if isinstance(n, ast.Name) and isinstance(n.ctx, ast.Store)}
        for n in ast.walk(fn):
            if isinstance(n, ast.Call) and chain(n.func) == 'Timex':
                for kw in n.keywords:
                    if kw.arg is None:
                        continue
                    strict += 1
                    chk.judge(kw.arg in timex_init, 'C15.attr', m.path, '%s: Timex(%s=)' % (qual(c, fn), kw.arg),
                              'constructor keyword', 'Timex.__init__ has no parameter %r (TypeError at run time)' % kw.arg,
                              n.lineno)
            if not isinstance(n, ast.Attribute) or not isinstance(n.value, ast.Name):
                continue
            if n.attr.startswith('__') and n.attr.endswith('__'):
                continue
            base = n.value.id
            k = None
            if base in localnames:
                k = env.get(base)
            elif base in cx.classes:
                k = base                      # class object: static methods / class attributes
            else:
                r = cx.idx.resolve(m, base)
                if r and r[0] == 'class':
                    k = r[1].name
                    if k not in attrs:
                        attrs[k] = class_attrs(cx, r[1])      # class of the package outside the modules in scope
                elif r and r[0] == 'module':
                    continue
                elif r is None and base not in dir(builtins):
                    # stdlib import (datetime, copy, ...) or unknown global
                    continue
            acc = 'write' if isinstance(n.ctx, ast.Store) else 'read'
            construct = '%s: %s.%s (%s)' % (qual(c, fn), base, n.attr, acc)
            if k is not None:
                strict += 1
                chk.judge(n.attr in attrs[k], 'C15.attr', m.path, construct, 'on ' + k,
                          '%s is a %s, which defines no attribute %r%s' % (
                              base, k, n.attr, ' (the write creates a stray attribute; the intended field stays unset)'
                              if acc == 'write' else ' (AttributeError at run time)'), n.lineno)
            else:
                loose += 1
                chk.judge(n.attr in universe, 'C15.attr', m.path, construct, 'any class',
                          'no class of the package, datetime, timedelta or builtin container defines an attribute %r'
                          % n.attr, n.lineno)

    for m, c, fn in cx.functions():
        check(m, c, fn)
    chk.extra['attr_sites_strict'] = strict
    chk.extra['attr_sites_loose'] = loose
    if strict < 60:
        raise AnalysisError('kind inference resolved only %d attribute sites (expected well over 100)' % strict)
    chk.control('C15.attr', 'minue' not in universe and 'minute' in attrs['Timex'] and 'day' not in attrs['Timex'])


# ---------------------------------------------------------------------------------------------------
# tiny evaluator over syntax trees (pure integer helpers only)

class EvalError(Exception):
    pass


class Obj(dict):
    pass


class Ev:
    """concrete evaluation of syntax trees: ints, bools, None, strings, lists, tuples, sets; package objects as Obj
    (constructor = its __init__ parameters, which C14.wiring shows are stored under their own names); dates as
    ('ref', k) = reference day + k days, timedelta as ('td', n); weekday() from wd0 = weekday of the reference day"""
    LOOP_CAP = 400

    def __init__(self, cx, mod, wd0=0, depth=0):
        self.cx = cx
        self.mod = mod
        self.wd0 = wd0
        self.depth = depth

    def run(self, fn, args):
        env = dict(zip(params_of(fn), args))
        r = self.block(fn.body, env)
        return r[1] if r else None

    def store(self, tgt, val, env):
        if isinstance(tgt, ast.Name):
            env[tgt.id] = val
        elif isinstance(tgt, ast.Attribute):
            o = self.ev(tgt.value, env)
            if not isinstance(o, Obj):
                raise EvalError('attribute store on %s' % type(o).__name__)
            if tgt.attr not in o:
                raise EvalError('store to undefined attribute %s' % tgt.attr)
            o[tgt.attr] = val
        elif isinstance(tgt, (ast.Tuple, ast.List)):
            if not isinstance(val, (tuple, list)) or len(val) != len(tgt.elts) or (val and val[0] in ('ref', 'td')):
                raise EvalError('tuple unpacking')
            for t, v in zip(tgt.elts, val):
                self.store(t, v, env)
        else:
            raise EvalError('assignment target %s' % type(tgt).__name__)

    def block(self, stmts, env):
        for st in stmts:
            if isinstance(st, ast.Return):
                return ('ret', self.ev(st.value, env) if st.value is not None else None)
            if isinstance(st, ast.Assign):
                v = self.ev(st.value, env)
                for t in st.targets:
                    self.store(t, v, env)
            elif isinstance(st, ast.AugAssign):
                cur = self.ev(ast.Name(id=st.target.id, ctx=ast.Load()) if isinstance(st.target, ast.Name)
                              else ast.Attribute(value=st.target.value, attr=st.target.attr, ctx=ast.Load())
                              if isinstance(st.target, ast.Attribute) else st.target, env)
                self.store(st.target, self.binop(st.op, cur, self.ev(st.value, env)), env)
            elif isinstance(st, ast.If):
                r = self.block(st.body if self.ev(st.test, env) else st.orelse, env)
                if r:
                    return r
            elif isinstance(st, ast.While):
                n = 0
                while self.ev(st.test, env):
                    n += 1
                    if n > self.LOOP_CAP:
                        raise EvalError('loop does not end within %d iterations' % self.LOOP_CAP)
                    r = self.block(st.body, env)
                    if r:
                        return r
            elif isinstance(st, ast.For):
                it = self.ev(st.iter, env)
                if not isinstance(it, (list, range)) or len(it) > self.LOOP_CAP:
                    raise EvalError('for loop over %s' % type(it).__name__)
                for v in it:
                    self.store(st.target, v, env)
                    r = self.block(st.body, env)
                    if r:
                        return r
            elif isinstance(st, ast.Expr):
                if isinstance(st.value, ast.Constant):
                    continue
                self.ev(st.value, env)
            elif isinstance(st, (ast.Pass, ast.Import, ast.ImportFrom)):
                continue
            else:
                raise EvalError('statement %s' % type(st).__name__)
        return None

    @staticmethod
    def is_date(v):
        return isinstance(v, tuple) and len(v) == 2 and v[0] == 'ref'

    @staticmethod
    def is_td(v):
        return isinstance(v, tuple) and len(v) == 2 and v[0] == 'td'

    def binop(self, op, a, b):
        if self.is_date(a) or self.is_td(a) or self.is_date(b) or self.is_td(b):
            add, sub = isinstance(op, ast.Add), isinstance(op, ast.Sub)
            if self.is_date(a) and self.is_td(b) and (add or sub):
                return ('ref', a[1] + b[1] if add else a[1] - b[1])
            if self.is_td(a) and self.is_date(b) and add:
                return ('ref', a[1] + b[1])
            if self.is_date(a) and self.is_date(b) and sub:
                return ('td', a[1] - b[1])
            if self.is_td(a) and self.is_td(b) and (add or sub):
                return ('td', a[1] + b[1] if add else a[1] - b[1])
            raise EvalError('date arithmetic')
        try:
            if isinstance(op, ast.Add):
                return a + b
            if isinstance(op, ast.Sub):
                return a - b
            if isinstance(op, ast.Mult):
                return a * b
            if isinstance(op, ast.Mod):
                return a % b
            if isinstance(op, ast.FloorDiv):
                return a // b
        except (TypeError, ZeroDivisionError) as ex:
            raise EvalError('arithmetic raises %s' % type(ex).__name__)
        raise EvalError('operator %s' % type(op).__name__)

    def ev(self, e, env):
        if isinstance(e, ast.Constant):
            return e.value
        if isinstance(e, ast.Name):
            if e.id in env:
                return env[e.id]
            if e.id in self.cx.classes:
                return self.cx.classes[e.id]
            r = self.cx.idx.resolve(self.mod, e.id)
            if r and r[0] == 'class':
                return r[1]
            if r and r[0] == 'const' and self.depth < 8:
                # module-level constant (possibly imported): evaluate its defining expression in its own module
                return Ev(self.cx, r[1], self.wd0, self.depth + 1).ev(r[2], {})
            raise EvalError('name %s' % e.id)
        if isinstance(e, ast.Tuple):
            return tuple(self.ev(x, env) for x in e.elts)
        if isinstance(e, ast.List):
            return [self.ev(x, env) for x in e.elts]
        if isinstance(e, ast.BinOp):
            return self.binop(e.op, self.ev(e.left, env), self.ev(e.right, env))
        if isinstance(e, ast.UnaryOp):
            v = self.ev(e.operand, env)
            if isinstance(e.op, ast.Not):
                return not v
            if isinstance(e.op, ast.USub):
                return -v
            raise EvalError('unary')
        if isinstance(e, ast.BoolOp):
            v = None
            for x in e.values:
                v = self.ev(x, env)
                if isinstance(e.op, ast.And) and not v:
                    return v
                if isinstance(e.op, ast.Or) and v:
                    return v
            return v
        if isinstance(e, ast.IfExp):
            return self.ev(e.body if self.ev(e.test, env) else e.orelse, env)
        if isinstance(e, ast.Compare):
            left = self.ev(e.left, env)
            for op, rn in zip(e.ops, e.comparators):
                right = self.ev(rn, env)
                ok = {ast.Lt: lambda a, b: a < b, ast.LtE: lambda a, b: a <= b, ast.Gt: lambda a, b: a > b,
                      ast.GtE: lambda a, b: a >= b, ast.Eq: lambda a, b: a == b, ast.NotEq: lambda a, b: a != b,
                      ast.Is: lambda a, b: a is b, ast.IsNot: lambda a, b: a is not b,
                      ast.In: lambda a, b: a in b, ast.NotIn: lambda a, b: a not in b}.get(type(op))
                if ok is None:
                    raise EvalError('comparison')
                try:
                    if not ok(left, right):
                        return False
                except TypeError:
                    raise EvalError('comparison raises TypeError')
                left = right
            return True
        if isinstance(e, ast.Attribute):
            b = self.ev(e.value, env)
            if isinstance(b, Obj):
                if e.attr not in b:
                    raise EvalError('attribute %s' % e.attr)
                return b[e.attr]
            if self.is_td(b) and e.attr == 'days':
                return b[1]
            if hasattr(b, 'attrs') and hasattr(b, 'methods'):      # index.Cls
                if e.attr in b.attrs:
                    try:
                        return ast.literal_eval(b.attrs[e.attr])
                    except (ValueError, SyntaxError):
                        if self.depth < 8:
                            return Ev(self.cx, b.mod, self.wd0, self.depth + 1).ev(b.attrs[e.attr], {})
                        raise EvalError('class attribute %s' % e.attr)
                if e.attr in b.methods:
                    return ('meth', b, b.methods[e.attr])
            raise EvalError('attribute %s' % e.attr)
        if isinstance(e, ast.Subscript):
            b = self.ev(e.value, env)
            k = self.ev(e.slice, env)
            try:
                return b[k]
            except Exception:
                raise EvalError('subscript')
        if isinstance(e, ast.Call):
            return self.call(e, env)
        raise EvalError('expression %s' % type(e).__name__)

    def construct(self, c, args, kws):
        init = c.methods.get('__init__')
        if init is None:
            if args or kws:
                raise EvalError('constructor arguments of %s' % c.name)
            return Obj()
        ps = params_of(init)[1:]
        defaults = dict(zip(ps[len(ps) - len(init.args.defaults):], init.args.defaults))
        o = Obj()
        if len(args) > len(ps) or set(kws) - set(ps):
            raise EvalError('constructor arguments of %s' % c.name)
        for i, p in enumerate(ps):
            if i < len(args):
                o[p] = args[i]
            elif p in kws:
                o[p] = kws[p]
            elif p in defaults and isinstance(defaults[p], ast.Constant):
                o[p] = defaults[p].value
            else:
                raise EvalError('constructor of %s: no value for %s' % (c.name, p))
        if c.name == 'Timex' and o.get('timex') is not None:
            raise EvalError('Timex parsed from a string')
        o['#class'] = c.name
        return o

    def call(self, e, env):
        ch = chain(e.func) or ''
        last = ch.split('.')[-1]
        args = [self.ev(a, env) for a in e.args]
        kws = {k.arg: self.ev(k.value, env) for k in e.keywords}
        if ch in ('max', 'min', 'int', 'abs', 'len', 'range', 'list', 'sorted', 'str', 'float', 'round', 'bool') and not kws:
            try:
                return getattr(builtins, ch)(*args)
            except (TypeError, ValueError, ArithmeticError) as ex:
                raise EvalError('%s raises %s' % (ch, type(ex).__name__))
        if ch in ('Decimal', 'decimal.Decimal') and len(args) == 1 and not kws:
            import decimal
            try:
                return decimal.Decimal(args[0])
            except (TypeError, ValueError, ArithmeticError) as ex:
                raise EvalError('Decimal raises %s' % type(ex).__name__)
        if last == 'timedelta':
            if set(kws) - {'days'} or len(args) > 1:
                raise EvalError('timedelta arguments')
            return ('td', kws.get('days', args[0] if args else 0))
        if isinstance(e.func, ast.Attribute):
            try:
                recv = self.ev(e.func.value, env)
            except EvalError:
                recv = None
            if self.is_date(recv) and last == 'weekday' and not args:
                return (self.wd0 + recv[1]) % 7
            if isinstance(recv, list) and last in ('append', 'extend') and len(args) == 1:
                getattr(recv, last)(args[0])
                return None
            if last == 'get_time' and not args and recv is not None:
                return recv                              # Time abstracted as its number of milliseconds
            if last == 'from_seconds' and len(args) == 1:
                return args[0]
            if last == 'date_value' and len(args) == 1 and isinstance(args[0], Obj):
                return args[0]                           # the formatted date abstracted as the Timex it prints
            if hasattr(recv, 'methods') and last in recv.methods:          # static / class method of a package class
                if self.depth > 6:
                    raise EvalError('call depth')
                fn = recv.methods[last]
                ps = params_of(fn)
                if ps and ps[0] in ('self', 'cls'):
                    args = [recv] + args
                if kws or len(args) != len(ps):
                    raise EvalError('arguments of %s' % ch)
                return Ev(self.cx, recv.mod, self.wd0, self.depth + 1).run(fn, args)
        if ch in self.cx.classes:
            return self.construct(self.cx.classes[ch], args, kws)
        if ch == 'cls':
            return Obj(zip(('start', 'end'), args))
        raise EvalError('call %s' % ch)


def rule_weekday(cx, chk):
    dh = cx.cls('TimexDateHelpers')
    path = dh.mod.path
    # (a) the two helpers, exhaustively
    for name, sign in (('date_of_last_day', -1), ('date_of_next_day', +1)):
        fn = cx.meth('TimexDateHelpers', name)
        ps = params_of(fn)
        if len(ps) != 2:
            raise AnalysisError('TimexDateHelpers.%s: expected (day, reference_date)' % name)
        bad = None
        for day in range(7):
            for wd in range(7):
                ev = Ev(cx, dh.mod, wd0=wd)
                env_args = [day, ('ref', 0)]
                try:
                    e = dict(zip(ps, env_args))
                    r = ev.block(fn.body, e)
                except EvalError as ex:
                    raise AnalysisError('TimexDateHelpers.%s: not evaluable (%s)' % (name, ex))
                if not r or not (isinstance(r[1], tuple) and r[1][0] == 'ref'):
                    raise AnalysisError('TimexDateHelpers.%s: result is not reference_date +- days' % name)
                k = r[1][1]
                good = (1 <= sign * k <= 7) and (wd + k) % 7 == day
                if not good and bad is None:
                    bad = (day, wd, k)
        chk.judge(bad is None, 'C15.weekday', path, 'TimexDateHelpers.%s on 7x7 inputs' % name,
                  'exact' if bad is None else 'day=%d weekday=%d -> %+d days' % bad,
                  '%s(day=%d, reference weekday %d) moves %+d days: not the nearest strictly %s date with that weekday'
                  % ((name,) + (bad or (0, 0, 0)) + ('earlier' if sign < 0 else 'later',)), fn.lineno)
    # (b) callers
    res = cx.cls('TimexResolver')
    for caller, helper in (('last_date_value', 'date_of_last_day'), ('next_date_value', 'date_of_next_day')):
        fn = cx.meth('TimexResolver', caller)
        ps = params_of(fn)
        calls = [n for n in ast.walk(fn) if isinstance(n, ast.Call) and (chain(n.func) or '').split('.')[-1] in
                 ('date_of_last_day', 'date_of_next_day')]
        if not calls:
            raise AnalysisError('TimexResolver.%s: no call to date_of_last_day / date_of_next_day' % caller)
        for call in calls:
            got = chain(call.func).split('.')[-1]
            chk.judge(got == helper, 'C15.weekday', res.mod.path, 'TimexResolver.%s helper' % caller, got,
                      'TimexResolver.%s must use %s, it calls %s' % (caller, helper, got), call.lineno)
            judge_day_arg(cx, chk, res, fn, call, ps[0], 'TimexResolver.%s' % caller)
            ref = chain(call.args[1]) if len(call.args) > 1 else None
            chk.judge(ref == ps[1], 'C15.weekday', res.mod.path, 'TimexResolver.%s reference' % caller, str(ref),
                      'the reference date handed to %s is %s, not the parameter %s' % (got, ref, ps[1]), call.lineno)
    rr = cx.cls('TimexRangeResolver')
    fn = cx.meth('TimexRangeResolver', 'resolve_date_against_constraint')
    calls = [n for n in ast.walk(fn) if isinstance(n, ast.Call) and (chain(n.func) or '').endswith('dates_matching_day')]
    if not calls:
        raise AnalysisError('TimexRangeResolver.resolve_date_against_constraint: no call to dates_matching_day')
    for call in calls:
        judge_day_arg(cx, chk, rr, fn, call, params_of(fn)[0], 'TimexRangeResolver.resolve_date_against_constraint')


def judge_day_arg(cx, chk, cls, fn, call, timex_param, where):
    """first argument of the helper call must be day_of_week - 1 (python weekday) for day_of_week in 1..7"""
    defs = local_defs(fn)
    arg = call.args[0] if call.args else None
    if arg is None:
        raise AnalysisError('%s: helper call without arguments' % where)
    bad = None
    for dow in range(1, 8):
        ev = Ev(cx, cls.mod)
        env = {timex_param: Obj(day_of_week=dow)}
        # resolve locals used in the argument from their (single) definitions
        try:
            for _ in range(3):
                for name in {n.id for n in ast.walk(arg) if isinstance(n, ast.Name)} | set(defs):
                    if name not in env and name in defs and len(defs[name]) == 1:
                        try:
                            env[name] = ev.ev(defs[name][0], env)
                        except EvalError:
                            pass
            v = ev.ev(arg, env)
        except EvalError as ex:
            raise AnalysisError('%s: weekday argument %s not evaluable (%s)' % (where, ast.unparse(arg), ex))
        if v != dow - 1 and bad is None:
            bad = (dow, v)
    chk.judge(bad is None, 'C15.weekday', cls.mod.path, '%s weekday argument' % where,
              'day_of_week-1 for 1..7' if bad is None else 'day_of_week=%d -> %r' % bad,
              '%s passes %r for day_of_week=%d where python weekday %d is expected (argument %s)'
              % ((where,) + ((bad[1], bad[0], bad[0] - 1) if bad else (0, 0, 0)) + (ast.unparse(arg),)), call.lineno)


# ---------------------------------------------------------------------------------------------------
# C15.halfopen, C15.overlap, C15.remove, C15.carry

def atoms(test):
    """comparison atoms of a conjunction, each normalised to (lhs, '<'|'<=', rhs) source text"""
    out = []
    if isinstance(test, ast.BoolOp) and isinstance(test.op, ast.And):
        for v in test.values:
            out.extend(atoms(v))
        return out
    if isinstance(test, ast.Compare):
        left = test.left
        for op, right in zip(test.ops, test.comparators):
            a, b = ast.unparse(left), ast.unparse(right)
            if isinstance(op, ast.Lt):
                out.append((a, '<', b))
            elif isinstance(op, ast.LtE):
                out.append((a, '<=', b))
            elif isinstance(op, ast.Gt):
                out.append((b, '<', a))
            elif isinstance(op, ast.GtE):
                out.append((b, '<=', a))
            else:
                out.append((a, type(op).__name__, b))
            left = right
    return out


def rule_halfopen(cx, chk):
    rr = cx.cls('TimexRangeResolver')
    for name in ('resolve_definite_against_constraint', 'resolve_time_against_constraint'):
        fn = cx.meth('TimexRangeResolver', name)
        cparam = params_of(fn)[1]
        tests = [n.test for n in ast.walk(fn) if isinstance(n, (ast.If, ast.IfExp))]
        lo = hi = None
        for t in tests:
            for a, op, b in atoms(t):
                if (cparam + '.start') in a and (cparam + '.') not in b:
                    lo = (op, '%s %s x' % ('start', op))
                elif (cparam + '.start') in b and (cparam + '.') not in a:
                    lo = ('bad', 'x %s start' % op)
                if (cparam + '.end') in b and (cparam + '.') not in a:
                    hi = (op, 'x %s end' % op)
                elif (cparam + '.end') in a and (cparam + '.') not in b:
                    hi = ('bad', 'end %s x' % op)
        if lo is None or hi is None:
            raise AnalysisError('TimexRangeResolver.%s: membership test against %s.start / %s.end not recognised'
                                % (name, cparam, cparam))
        chk.judge(lo[0] == '<=', 'C15.halfopen', rr.mod.path, 'TimexRangeResolver.%s lower bound' % name, lo[1],
                  'the start of a constraint is inclusive (start <= x); found %s' % lo[1], fn.lineno)
        chk.judge(hi[0] == '<', 'C15.halfopen', rr.mod.path, 'TimexRangeResolver.%s upper bound' % name, hi[1],
                  'the end of a constraint is exclusive (x < end); found %s' % hi[1], fn.lineno)
    # dates_matching_day(day, start, end) = {d in [start, end) : weekday(d) == day}, decided by running its syntax
    # tree on probes: every weekday of start, every searched day, lengths incl. 0 and ends that fall on the day
    dh = cx.cls('TimexDateHelpers')
    fn = cx.meth('TimexDateHelpers', 'dates_matching_day')
    if len(params_of(fn)) != 3:
        raise AnalysisError('TimexDateHelpers.dates_matching_day: expected (day, start, end)')
    bad = None
    n = 0
    for wd0 in range(7):
        for day in range(7):
            for length in (0, 1, 6, 7, 8, 14, 29, 31):
                want = [k for k in range(length) if (wd0 + k) % 7 == day]
                try:
                    got = Ev(cx, dh.mod, wd0=wd0).run(fn, [day, ('ref', 0), ('ref', length)])
                except EvalError as ex:
                    if 'does not end' in str(ex):
                        got = str(ex)
                    else:
                        raise AnalysisError('TimexDateHelpers.dates_matching_day: not evaluable (%s)' % ex)
                n += 1
                if isinstance(got, list) and all(Ev.is_date(g) for g in got):
                    got = [g[1] for g in got]
                if got != want and (bad is None or (bad[2] == 0 and length >= 7)):
                    bad = (day, wd0, length, got, want)      # prefer a non-degenerate counterexample
    chk.extra['dates_matching_day_probes'] = n
    chk.judge(bad is None, 'C15.halfopen', dh.mod.path, 'TimexDateHelpers.dates_matching_day on %d probes' % n,
              '= {d in [start,end): weekday(d)=day}' if bad is None else
              'day=%d start weekday=%d length=%d -> offsets %s' % bad[:4],
              'dates_matching_day(day=%d, start (a weekday %d), end = start + %d days) yields the offsets %s from start, '
              'the days of that weekday in the half-open range [start, end) are %s'
              % (bad or (0, 0, 0, '', '')), fn.lineno)


def ymd(o):
    if not isinstance(o, Obj):
        raise EvalError('not a Timex: %r' % (o,))
    return (o.get('year'), o.get('month'), o.get('day_of_month'))


def next_month(y, m):
    return (y + 1, 1, 1) if m == 12 else (y, m + 1, 1)


def rule_monthend(cx, chk):
    """month ranges and month addition, decided by running the syntax trees for every month (year carried on wrap)"""
    Y = 2016
    timex_cls = cx.cls('Timex')
    res = cx.cls('TimexResolver')
    hel = cx.cls('TimexHelpers')

    def timex(**kw):
        o = Ev(cx, timex_cls.mod).construct(timex_cls, [], kw)
        return o

    # TimexResolver.month_date_range(year, month) -> (first day, first day of the following month)
    fn = cx.meth('TimexResolver', 'month_date_range')
    bad = None
    for m in range(1, 13):
        try:
            r = Ev(cx, res.mod).run(fn, [Y, m])
            got = (ymd(r[0]), ymd(r[1])) if isinstance(r, tuple) and len(r) == 2 else None
        except EvalError as ex:
            raise AnalysisError('TimexResolver.month_date_range: not evaluable (%s)' % ex)
        want = ((Y, m, 1), next_month(Y, m))
        if got != want and bad is None:
            bad = (m, got, want)
    chk.judge(bad is None, 'C15.monthend', res.mod.path, 'TimexResolver.month_date_range for months 1..12',
              '[y-m-01, first day of next month)' if bad is None else 'month %d -> %s' % bad[:2],
              'month_date_range(%d, %d) yields %s, expected %s: the exclusive end must be the first day of the following '
              'month in the right year' % ((Y,) + (bad or (0, '', ''))), fn.lineno)

    # TimexRangeResolver year range
    fn = cx.meth('TimexResolver', 'year_date_range')
    try:
        r = Ev(cx, res.mod).run(fn, [Y])
        got = (ymd(r[0]), ymd(r[1]))
    except (EvalError, TypeError, IndexError) as ex:
        raise AnalysisError('TimexResolver.year_date_range: not evaluable (%s)' % ex)
    chk.judge(got == ((Y, 1, 1), (Y + 1, 1, 1)), 'C15.monthend', res.mod.path, 'TimexResolver.year_date_range',
              '%s' % (got,), 'year_date_range(%d) yields %s, expected Jan 1st of the year and of the next year' % (Y, got),
              fn.lineno)

    # TimexHelpers.expand_datetime_range for 'YYYY-MM' and 'YYYY'
    fn = cx.meth('TimexHelpers', 'expand_datetime_range')
    consts = cx.cls('Constants')
    dr = consts.attrs.get('TIMEX_TYPES_DATERANGE')
    if not isinstance(dr, ast.Constant):
        raise AnalysisError('anchor vanished: Constants.TIMEX_TYPES_DATERANGE')
    bad = None
    for m in list(range(1, 13)) + [None]:
        t = timex(year=Y, month=m)
        t['types'] = {dr.value}
        try:
            r = Ev(cx, hel.mod).run(fn, [t])
            got = (ymd(r['start']), ymd(r['end']))
        except (EvalError, KeyError, TypeError) as ex:
            raise AnalysisError('TimexHelpers.expand_datetime_range: not evaluable (%s)' % ex)
        want = ((Y, m, 1), next_month(Y, m)) if m else ((Y, 1, 1), (Y + 1, 1, 1))
        if got != want and bad is None:
            bad = (m, got, want)
    chk.judge(bad is None, 'C15.monthend', hel.mod.path, 'TimexHelpers.expand_datetime_range for YYYY and YYYY-01..12',
              '[first day, first day of next period)' if bad is None else 'month %s -> %s' % bad[:2],
              'expand_datetime_range(year %d, month %s) yields %s, expected %s' % ((Y,) + (bad or ('', '', ''))), fn.lineno)

    # TimexHelpers.timex_date_add(start, P<k>M)
    fn = cx.meth('TimexHelpers', 'timex_date_add')
    bad = None
    for m in range(1, 13):
        for k in (1, 11, 12, 13):
            start = timex(year=Y, month=m, day_of_month=5)
            dur = timex(months=k)
            try:
                got = ymd(Ev(cx, hel.mod).run(fn, [start, dur]))
            except EvalError as ex:
                raise AnalysisError('TimexHelpers.timex_date_add: not evaluable (%s)' % ex)
            tot = m - 1 + k
            want = (Y + tot // 12, tot % 12 + 1, 5)
            if got != want and bad is None:
                bad = (m, k, got, want)
    chk.judge(bad is None, 'C15.monthend', hel.mod.path, 'TimexHelpers.timex_date_add months 1..12 + {1,11,12,13}',
              'year carried' if bad is None else '%d-%02d-05 + P%dM -> %s' % ((Y,) + bad[:3]),
              'timex_date_add(%d-%02d-05, P%dM) yields %s, expected %s' % ((Y,) + (bad or (0, 0, '', ''))), fn.lineno)


def dup_keys(d):
    """constant keys that occur more than once in a dict literal (ast keeps both, Python keeps the last)"""
    seen, dups = {}, []
    for k, v in zip(d.keys, d.values):
        if isinstance(k, ast.Constant):
            key = (type(k.value).__name__, k.value)
            if key in seen:
                dups.append((k.value, ast.unparse(seen[key]), ast.unparse(v)))
            seen[key] = v
    return dups


def rule_dictkeys(cx, chk):
    """no dict literal of the datatype package repeats a constant key"""
    n = 0
    for name, m in sorted(cx.idx.mods.items()):
        if not (name == PKG or name.startswith(PKG + '.')):
            continue
        owner = {}
        for node in ast.walk(m.tree):
            if isinstance(node, (ast.ClassDef, ast.FunctionDef)):
                for ch in ast.walk(node):
                    if isinstance(ch, ast.Dict):
                        owner.setdefault(id(ch), []).append(node.name)
        for node in ast.walk(m.tree):
            if isinstance(node, (ast.Assign, ast.AnnAssign)) and isinstance(node.value, ast.Dict):
                tg = node.targets[0] if isinstance(node, ast.Assign) else node.target
                label = chain(tg) or ast.unparse(tg)
            else:
                continue
            d = node.value
            if not any(isinstance(k, ast.Constant) for k in d.keys):
                continue
            n += 1
            dups = dup_keys(d)
            where = '.'.join(owner.get(id(d), [])[:1] + [label])
            chk.judge(not dups, 'C15.dictkeys', m.path, 'dict literal %s' % where,
                      '%d constant keys' % sum(isinstance(k, ast.Constant) for k in d.keys) if not dups else
                      'repeated: ' + ', '.join('%r (%s / %s)' % x for x in dups),
                      'dict literal %s repeats the key %s: Python silently keeps the last value, so %r no longer maps to %s'
                      % ((where, ', '.join(repr(x[0]) for x in dups)) + ((dups[0][0], dups[0][1]) if dups else ('', ''))),
                      d.lineno)
        # dict literals that are not the value of an assignment (arguments, returns)
        assigned = {id(n2.value) for n2 in ast.walk(m.tree) if isinstance(n2, (ast.Assign, ast.AnnAssign))
                    and isinstance(getattr(n2, 'value', None), ast.Dict)}
        for d in ast.walk(m.tree):
            if isinstance(d, ast.Dict) and id(d) not in assigned and any(isinstance(k, ast.Constant) for k in d.keys):
                n += 1
                dups = dup_keys(d)
                where = '.'.join(owner.get(id(d), [])[:1] + ['<dict at an expression>'])
                chk.judge(not dups, 'C15.dictkeys', m.path, 'dict literal %s' % where,
                          'no repeated key' if not dups else 'repeated: ' + ', '.join('%r (%s / %s)' % x for x in dups),
                          'a dict literal repeats the key %s: Python silently keeps the last value'
                          % ', '.join(repr(x[0]) for x in dups), d.lineno)
    ctl = ast.parse("T = {'Y': 'years', 'M': 'months', 'H': 'hours', 'M': 'minutes'}").body[0].value
    chk.control('C15.dictkeys', dup_keys(ctl) == [('M', "'months'", "'minutes'")])


# ---------------------------------------------------------------------------------------------------
# C15.alias : the resolver builds results on copies, never on the objects it was handed

ALIAS_MODS = ('timex_range_resolver', 'timex_constraints_helper', 'timex_helpers')
FRESH_CALLS = ('copy', 'deepcopy', 'clone')


def root_name(e):
    while isinstance(e, (ast.Attribute, ast.Subscript)):
        e = e.value
    return e.id if isinstance(e, ast.Name) else None


def origins(cx, fn, fresh_funcs):
    """name -> 'fresh' | 'borrowed' | 'unknown' for the locals and parameters of fn (flow-insensitive; a name with
    both a fresh and a borrowed definition counts as borrowed)"""
    org = {}
    for p in params_of(fn):
        if p not in ('self', 'cls'):
            org[p] = {'borrowed'}

    def of_expr(e):
        if isinstance(e, ast.Call):
            ch = chain(e.func) or ''
            last = ch.split('.')[-1]
            if ch in cx.classes or last in cx.classes or last in FRESH_CALLS or last in ('date', 'datetime', 'timedelta'):
                return 'fresh'
            if last in fresh_funcs:
                return 'fresh'
            if last in ('list', 'map', 'filter', 'sorted', 'reversed', 'enumerate', 'iter', 'tuple') and e.args:
                # a container view: its elements are what the mapped function yields / what the argument holds
                if last == 'map' and isinstance(e.args[0], ast.Lambda):
                    inner = of_expr(e.args[0].body)
                    return inner if inner == 'fresh' else of_elements(e.args[-1])
                return of_elements(e.args[-1] if last in ('map', 'filter') else e.args[0])
            return 'unknown'
        if isinstance(e, ast.Name):
            return 'name:' + e.id
        if isinstance(e, (ast.Attribute, ast.Subscript)):
            r = root_name(e)
            return 'name:' + r if r else 'unknown'
        if isinstance(e, ast.IfExp):
            a, b = of_expr(e.body), of_expr(e.orelse)
            return a if a == b else ('borrowed' if 'borrowed' in (a, b) else 'unknown')
        return 'unknown'

    def of_elements(e):
        r = of_expr(e)
        return r

    defs = {}
    for n in ast.walk(fn):
        if isinstance(n, ast.Assign):
            for t in n.targets:
                if isinstance(t, ast.Name):
                    defs.setdefault(t.id, []).append(of_expr(n.value))
        elif isinstance(n, (ast.For, ast.comprehension)):
            for t in ast.walk(n.target):
                if isinstance(t, ast.Name):
                    defs.setdefault(t.id, []).append(of_elements(n.iter))
        elif isinstance(n, ast.Lambda):
            for a in n.args.args:
                defs.setdefault(a.arg, []).append('unknown')
    for _ in range(4):
        for name, ds in defs.items():
            got = set()
            for d in ds:
                if d.startswith('name:'):
                    got |= org.get(d[5:], {'unknown'}) if d[5:] != name else set()
                else:
                    got.add(d)
            org[name] = (org.get(name, set()) | got) if name in params_of(fn) else got
    out = {}
    for name, kinds in org.items():
        out[name] = 'borrowed' if 'borrowed' in kinds else 'fresh' if kinds == {'fresh'} else 'unknown'
    return out


def mutation_sites(fn):
    """(root name, description, node) for attribute stores / deletes / setattr on named objects"""
    out = []
    for n in ast.walk(fn):
        tgts = []
        if isinstance(n, ast.Assign):
            tgts = n.targets
        elif isinstance(n, (ast.AugAssign, ast.AnnAssign)):
            tgts = [n.target]
        elif isinstance(n, ast.Delete):
            tgts = n.targets
        for t in tgts:
            for x in (t.elts if isinstance(t, (ast.Tuple, ast.List)) else [t]):
                if isinstance(x, ast.Attribute):
                    r = root_name(x)
                    if r:
                        out.append((r, '%s =' % (chain(x) or ast.unparse(x)), n))
        if isinstance(n, ast.Call) and chain(n.func) in ('setattr', 'delattr') and n.args:
            r = root_name(n.args[0])
            if r:
                out.append((r, '%s(%s, ...)' % (chain(n.func), ast.unparse(n.args[0])), n))
    return out


def fresh_returning(cx):
    """names of package functions all of whose returns are fresh objects (fixpoint)"""
    fresh = set()
    funcs = list(cx.functions())
    for _ in range(4):
        for m, c, fn in funcs:
            rets = [n.value for n in ast.walk(fn) if isinstance(n, ast.Return) and n.value is not None]
            if not rets:
                continue
            org = origins(cx, fn, fresh)
            ok = True
            for r in rets:
                if isinstance(r, ast.Name):
                    ok = ok and org.get(r.id) == 'fresh'
                elif isinstance(r, ast.Call):
                    ch = chain(r.func) or ''
                    ok = ok and (ch in cx.classes or ch.split('.')[-1] in FRESH_CALLS or ch.split('.')[-1] in fresh
                                 or ch == 'cls')
                else:
                    ok = False
            if ok:
                fresh.add(fn.name)
    return fresh


def rule_alias(cx, chk):
    fresh = fresh_returning(cx)
    n = 0
    for modname in ALIAS_MODS:
        m = cx.mods[modname]
        for c in m.classes.values():
            for fn in [st for st in c.node.body if isinstance(st, ast.FunctionDef)]:
                sites = mutation_sites(fn)
                if not sites:
                    continue
                org = origins(cx, fn, fresh)
                for root, desc, node in sites:
                    if root in ('self', 'cls'):
                        continue
                    kind = org.get(root, 'unknown')
                    n += 1
                    construct = '%s: %s' % (qual(c, fn), desc)
                    if kind == 'fresh':
                        chk.ok('C15.alias', m.path, construct, 'on a fresh object (%s)' % root, node.lineno)
                    elif kind == 'borrowed':
                        chk.bad('C15.alias', m.path, construct, 'on borrowed %s' % root,
                                '%s writes into %s, which is a parameter of %s (or reached from one): the caller hands the '
                                'same object to the next constraint / candidate, so later results are computed from an '
                                'object that was already changed - build the result on copy.copy(%s) / %s.clone() / a new '
                                'object' % (desc, root, qual(c, fn), root, root), node.lineno)
                    else:
                        raise AnalysisError('%s:%d %s: origin of %s not classified (neither a copy/constructor nor a '
                                            'parameter)' % (m.rel, node.lineno, qual(c, fn), root))
    ctl = ast.parse("def f(timex, constraint):\n    for d in dates:\n        timex.year = d.year\n"
                    "        t = copy.copy(timex)\n        t.month = 1\n").body[0]
    o = origins(cx, ctl, set())
    chk.control('C15.alias', o.get('timex') == 'borrowed' and o.get('t') == 'fresh'
                and {r for r, _, _ in mutation_sites(ctl)} == {'timex', 't'})


# ---------------------------------------------------------------------------------------------------
# tabulations with the shared object interpreter (sa/ointerp.py; stand-ins come from the C14 module)

def _ointerp(cx, where):
    from . import c14 as _c14
    from .. import ointerp
    return ointerp, _c14.make_ointerp(cx, where)


def rule_timeparts(cx, chk):
    """Time.from_seconds(Time(h, m, s).get_time()) gives h, m, s back, for every clock time of a grid"""
    oi, it = _ointerp(cx, 'C15.timeparts')
    tc = cx.cls('Time')
    fs = cx.meth('Time', 'from_seconds')
    bad = None
    floats = set()
    n = 0
    for h in range(24):
        for m in (0, 1, 29, 45, 59):
            for sec in (0, 1, 30, 59):
                n += 1
                try:
                    t = it.instantiate(tc, [h, m, sec], {}, None)
                    ms = it.call_value(it.getattr(t, 'get_time', None, None), [], {}, None)
                    r = it.call_function(oi.FuncRef(tc.mod, fs, tc), [ms], {}, None)
                    got = tuple(it.getattr(r, p, None, None) for p in ('hour', 'minute', 'second'))
                except oi.PyExc as ex:
                    got = 'raises %s' % ex
                # integral components: a float second is copied into resolved TIMEXes and printed as 'T08:00:30.0'
                ok = isinstance(got, tuple) and all(isinstance(x, int) and not isinstance(x, bool) for x in got) \
                    and got == (h, m, sec)
                if isinstance(got, tuple):
                    floats |= {p for p, x in zip(('hour', 'minute', 'second'), got) if isinstance(x, float)}
                if not ok and bad is None:
                    bad = ((h, m, sec), got)
    chk.judge(bad is None, 'C15.timeparts', tc.mod.path, 'Time.from_seconds(Time(h,m,s).get_time()) on %d clock times' % n,
              '= (h, m, s)' if bad is None else '%s -> %s' % bad,
              'Time.from_seconds(Time%s.get_time()) is %s: the time of day does not survive, as integral hour / minute / second, the '
              'conversion that TimeRange.collapse_overlapping and the time-range resolver rely on%s'
              % ((bad or ('', '')) + (' (%s come back as float: TimexRangeResolver.resolve_timerage copies them into the result, whose '
                                      'timex_value() then prints e.g. T08:00:30.0)' % ', '.join(sorted(floats)) if floats else '',)),
              fs.lineno)


def rule_owntime(cx, chk):
    """resolve_by_time_constraints, run on single candidates: a candidate's own time of day is never replaced; a date
    without a time takes the time of every time constraint; anything else is carried through"""
    oi, it = _ointerp(cx, 'C15.owntime')
    tcls = cx.cls('Timex')
    rr = cx.cls('TimexRangeResolver')
    fn = cx.meth('TimexRangeResolver', 'resolve_by_time_constraints')
    consts = cx.cls('Constants')
    tconst = {}
    for nm in ('TIMEX_TYPES_DATE', 'TIMEX_TYPES_TIME'):
        v = consts.attrs.get(nm)
        if not isinstance(v, ast.Constant):
            raise AnalysisError('anchor vanished: Constants.%s' % nm)
        tconst[nm] = v.value

    def timex(sv):
        return it.instantiate(tcls, [sv], {}, None)

    def value(o):
        return it.call_value(it.getattr(o, 'timex_value', None, None), [], {}, None)

    def types(o):
        return list(it.iterate(it.getattr(o, 'types', None, None), None))

    candidates = ['XXXX-WXX-3T04', 'XXXX-WXX-3T16:30', '2017-09-27T10:30:15', 'XXXX-09-27T23', 'T16', 'T00:30',
                  'XXXX-WXX-3', '2017-09-27', 'XXXX-09-27', 'P3D', '2017-09']
    constraint_sets = [['T12'], ['T12', 'T18:30'], ['(2017-09-27,2017-10-11,P14D)', 'T12'], ['2017-09', 'T08', 'T20:15:10']]
    n = 0
    for cand in candidates:
        c0 = timex(cand)
        tys = types(c0)
        own = value(c0)
        has_time = tconst['TIMEX_TYPES_TIME'] in tys
        has_date = tconst['TIMEX_TYPES_DATE'] in tys
        bad = None
        for cs in constraint_sets:
            cons = [timex(x) for x in cs]
            times = [value(x) for x in cons if tconst['TIMEX_TYPES_TIME'] in types(x)]
            if has_date and not has_time:
                want = [own + t for t in times]
            else:
                want = [own]
            try:
                got = it.call_function(oi.FuncRef(rr.mod, fn, rr), [[cand], cons], {}, None)
                got = list(it.iterate(got, None))
            except oi.PyExc as ex:
                got = 'raises %s' % ex
            n += 1
            if got != want and bad is None:
                bad = (cs, got, want)
        kind = 'has its own time' if has_time else 'date without time' if has_date else 'no date'
        chk.judge(bad is None, 'C15.owntime', rr.mod.path,
                  'TimexRangeResolver.resolve_by_time_constraints([%r], ...)' % cand,
                  kind + (': kept' if has_time or not has_date else ': takes each constraint time') if bad is None
                  else '%s with %s -> %s' % (kind, bad[0], bad[1]),
                  'candidate %r (%s) with constraints %s resolves to %s, expected %s - %s'
                  % ((cand, kind) + (bad or ('', '', '')) +
                     ("a candidate's own time of day must never be replaced by a constraint's" if has_time else
                      'only a date without a time takes the time of a time constraint',)), fn.lineno)
    chk.extra['owntime_runs'] = n


def small_ranges(n=5):
    pairs = [(s, e) for s in range(n) for e in range(n) if s < e]
    return list(itertools.product(pairs, pairs))


def rule_overlap(cx, chk):
    for cname in ('DateRange', 'TimeRange'):
        c = cx.cls(cname)
        meths = {name: (c, c.methods[name]) for name in c.methods}
        for mname in ('is_overlapping', 'collapse_overlapping'):
            if mname not in c.methods:
                raise AnalysisError('anchor vanished: %s.%s' % (cname, mname))
        fn = c.methods['is_overlapping']
        bad = None
        for (s1, e1), (s2, e2) in small_ranges():
            a = Obj(start=s1, end=e1)
            b = Obj(start=s2, end=e2)
            try:
                got = bool(Ev(cx, c.mod).run(fn, [a, b]))
            except EvalError as ex:
                raise AnalysisError('%s.is_overlapping: not evaluable (%s)' % (cname, ex))
            want = s1 < e2 and s2 < e1
            if got != want and bad is None:
                bad = ((s1, e1), (s2, e2), got)
        chk.judge(bad is None, 'C15.overlap', c.mod.path, '%s.is_overlapping on all ranges over 0..4' % cname,
                  'equals interval overlap' if bad is None else '[%d,%d) vs [%d,%d) -> %s' % (bad[0] + bad[1] + (bad[2],)),
                  '%s.is_overlapping([%d,%d), [%d,%d)) evaluates to %s, but the half-open ranges %s'
                  % ((cname,) + (bad[0] + bad[1] + (bad[2], 'do overlap' if not bad[2] else 'do not overlap')
                                 if bad else (0, 0, 0, 0, '', ''))), fn.lineno)
        fn = c.methods['collapse_overlapping']
        bad = None
        for (s1, e1), (s2, e2) in small_ranges(4):
            a = Obj(start=s1, end=e1)
            b = Obj(start=s2, end=e2)
            try:
                got = Ev(cx, c.mod).run(fn, [a, b])
            except EvalError as ex:
                raise AnalysisError('%s.collapse_overlapping: not evaluable (%s)' % (cname, ex))
            if not isinstance(got, Obj):
                raise AnalysisError('%s.collapse_overlapping: does not construct a range' % cname)
            want = (max(s1, s2), min(e1, e2))
            if (got.get('start'), got.get('end')) != want and bad is None:
                bad = ((s1, e1), (s2, e2), (got.get('start'), got.get('end')))
        chk.judge(bad is None, 'C15.overlap', c.mod.path, '%s.collapse_overlapping on all ranges over 0..3' % cname,
                  '(max start, min end)' if bad is None else '[%d,%d) + [%d,%d) -> %r' % (bad[0] + bad[1] + (bad[2],)),
                  '%s.collapse_overlapping must return the intersection (max of starts, min of ends)' % cname, fn.lineno)
    # TimexConstraintsHelper delegates unchanged
    h = cx.cls('TimexConstraintsHelper')
    for mname in ('is_overlapping', 'collapse_overlapping'):
        fn = cx.meth('TimexConstraintsHelper', mname)
        ps = [p for p in params_of(fn) if p != 'self']
        rets = [n.value for n in ast.walk(fn) if isinstance(n, ast.Return) and n.value is not None]
        good = len(rets) == 1 and isinstance(rets[0], ast.Call) and chain(rets[0].func) == '%s.%s' % (ps[0], mname) \
            and [chain(a) for a in rets[0].args] == [ps[1]]
        chk.judge(good, 'C15.overlap', h.mod.path, 'TimexConstraintsHelper.%s delegation' % mname,
                  ast.unparse(rets[0]) if rets else '-', 'must return %s.%s(%s)' % (ps[0], mname, ps[1]), fn.lineno)


def linear(e):
    """linear normal form {name: coeff, '': const} of an int expression of names and constants, or None"""
    if const_int(e) is not None:
        return {'': const_int(e)}
    if isinstance(e, ast.Name):
        return {e.id: 1}
    if isinstance(e, ast.BinOp) and isinstance(e.op, (ast.Add, ast.Sub)):
        l, r = linear(e.left), linear(e.right)
        if l is None or r is None:
            return None
        out = dict(l)
        for k, v in r.items():
            out[k] = out.get(k, 0) + (v if isinstance(e.op, ast.Add) else -v)
        return {k: v for k, v in out.items() if v or k == ''}
    return None


def removal_sites(fn, lst):
    """element removals on list `lst`: ('del-index'|'pop'|'remove'|'del-slice', node, width-or-None)"""
    out = []
    for n in ast.walk(fn):
        if isinstance(n, ast.Delete):
            for t in n.targets:
                if isinstance(t, ast.Subscript) and chain(t.value) == lst:
                    if isinstance(t.slice, ast.Slice):
                        lo = linear(t.slice.lower) if t.slice.lower is not None else {'': 0}
                        hi = linear(t.slice.upper) if t.slice.upper is not None else None
                        width = None
                        if lo is not None and hi is not None and t.slice.step is None:
                            d = dict(hi)
                            for k, v in lo.items():
                                d[k] = d.get(k, 0) - v
                            d = {k: v for k, v in d.items() if v}
                            if set(d) <= {''}:
                                width = d.get('', 0)
                            else:
                                width = 'varies'
                        out.append(('del-slice', n, width, ast.unparse(t)))
                    else:
                        out.append(('del-index', n, 1, ast.unparse(t)))
        elif isinstance(n, ast.Call) and chain(n.func) in (lst + '.pop', lst + '.remove'):
            out.append((n.func.attr, n, 1, ast.unparse(n)))
    return out


def rule_remove(cx, chk):
    h = cx.cls('TimexConstraintsHelper')
    fn = cx.meth('TimexConstraintsHelper', 'inner_collapse')
    lst = [p for p in params_of(fn) if p != 'self'][0]
    sites = removal_sites(fn, lst)
    rebuilt = any(isinstance(n, ast.Assign) and any(chain(t) == lst or (isinstance(t, ast.Subscript) and chain(t.value) == lst)
                                                    for t in n.targets) for n in ast.walk(fn))
    if not sites and not rebuilt:
        raise AnalysisError('TimexConstraintsHelper.inner_collapse: no removal of the collapsed elements recognised')
    for kind, node, width, txt in sites:
        chk.judge(width == 1, 'C15.remove', h.mod.path, 'TimexConstraintsHelper.inner_collapse ' + kind,
                  '%s removes %s element(s)' % (txt, width),
                  '`%s` does not remove exactly one element for every index (slice [a:b] removes b-a elements: a '
                  '(start, length) pair was ported as a slice); the collapsed ranges stay in the list and collapse() '
                  'appends without end' % txt, node.lineno)
    if rebuilt and not sites:
        chk.ok('C15.remove', h.mod.path, 'TimexConstraintsHelper.inner_collapse rebuild', 'list rebuilt', fn.lineno)
    ctl = ast.parse("def f(self, ranges):\n    del ranges[i:1]\n").body[0]
    chk.control('C15.remove', any(w != 1 for _, _, w, _ in removal_sites(ctl, 'ranges')))


def carry_sites(fn):
    out = []
    for n in ast.walk(fn):
        if isinstance(n, ast.Compare) and len(n.ops) == 1:
            l, r = n.left, n.comparators[0]
            op = n.ops[0]
            if isinstance(r, ast.Attribute) and const_int(l) is not None:
                l, r = r, l
                op = {ast.Lt: ast.Gt(), ast.Gt: ast.Lt(), ast.LtE: ast.GtE(), ast.GtE: ast.LtE()}.get(type(op), op)
            if isinstance(l, ast.Attribute) and l.attr in FIELD_MAX and const_int(r) is not None and const_int(r) >= 2:
                mx = FIELD_MAX[l.attr]
                want = {ast.Gt: mx, ast.GtE: mx + 1, ast.Lt: mx + 1, ast.LtE: mx, ast.Eq: None, ast.NotEq: None}.get(type(op))
                if want is None:
                    continue
                out.append((l.attr, type(op).__name__, const_int(r), want, n))
    return out


def rule_carry(cx, chk):
    for m, c, fn in cx.functions():
        for fld, op, k, want, node in carry_sites(fn):
            chk.judge(k == want, 'C15.carry', m.path, '%s: %s %s <const>' % (qual(c, fn), fld, op), '%s %s %d' % (fld, op, k),
                      'carry test `%s`: a %s runs to %d, so the threshold must be %d; with %d valid values are carried '
                      'into the next unit' % (ast.unparse(node), fld, FIELD_MAX[fld], want, k), node.lineno)
    ctl = ast.parse("def f(r):\n    if r.minute > 50:\n        r.hour += 1\n").body[0]
    chk.control('C15.carry', any(k != w for _, _, k, w, _ in carry_sites(ctl)))


# ---------------------------------------------------------------------------------------------------

def run(chk):
    chk.explanation = ('structural clauses of TIMEX resolution and constraint solving: sink/source rules for calendar '
                       'field arithmetic and (year, month, day) provenance, table agreement for the seconds table, '
                       'attribute existence under a light kind inference, guard/use agreement, and exhaustive '
                       'syntax-tree evaluation of the pure weekday and interval helpers')
    chk.rule('C15.range', 'month / day_of_week arithmetic reaches a month / day_of_week sink only through a wrap',
             floor=10, control=True)
    chk.rule('C15.provenance', 'month and day of a (year, month, day) triple come from the same object', floor=6,
             control=True)
    chk.rule('C15.seconds', 'TimexValue.duration_value = amount x reference seconds for every unit, whole and fractional '
                            'probe amounts (run on its syntax tree)', floor=7)
    chk.rule('C15.attr', 'attribute names used on values of a known class exist on it; others exist somewhere',
             floor=150, control=True)
    chk.rule('C15.guard', 'a value guarded by `x.f is not None` reads x.f', floor=8, control=True)
    chk.rule('C15.weekday', 'weekday helpers exact on 7x7; callers pass day_of_week-1 to the right sibling', floor=9)
    chk.rule('C15.halfopen', 'constraint membership is start <= x < end; dates_matching_day yields exactly the matching days of [start, end) on probes', floor=5)
    chk.rule('C15.monthend', 'month_date_range / year_date_range / expand_datetime_range / timex_date_add(months) evaluated '
                             'for every month: end is the first day of the following month, year carried', floor=4)
    chk.rule('C15.dictkeys', 'no dict literal of the datatype package repeats a constant key (the later entry silently '
                             'replaces the earlier one)', floor=3, control=True)
    chk.rule('C15.alias', 'attribute stores in the resolver modules go to objects made in the same function (constructor, '
                          'copy, clone), never to a parameter or to something reached from one', floor=20, control=True)
    chk.rule('C15.timeparts', 'Time.from_seconds inverts Time.get_time on a grid of clock times (run on the syntax trees)',
             floor=1)
    chk.rule('C15.owntime', 'resolve_by_time_constraints, run on single candidates: own time kept, date without time takes '
                            'each constraint time, the rest carried through', floor=8)
    chk.rule('C15.overlap', 'is_overlapping = interval overlap, collapse_overlapping = (max start, min end), both range '
                            'types, exhaustive over a small domain', floor=6)
    chk.rule('C15.remove', 'inner_collapse removes exactly one element per removal', floor=1, control=True)
    chk.rule('C15.carry', 'carry thresholds on hour/minute/second equal the field maxima', floor=1, control=True)
    chk.assume('a year has 365 days and a month 30 days in the duration seconds table (the values the Specs use)')
    chk.assume('no monkey patching: attribute sets of the package classes are what their class bodies and methods write')
    cx = Ctx(chk)
    rule_range(cx, chk)
    rule_provenance(cx, chk)
    rule_seconds(cx, chk)
    rule_attr(cx, chk)
    rule_guard(cx, chk)
    rule_weekday(cx, chk)
    rule_halfopen(cx, chk)
    rule_monthend(cx, chk)
    rule_overlap(cx, chk)
    rule_remove(cx, chk)
    rule_carry(cx, chk)
    rule_dictkeys(cx, chk)
    rule_alias(cx, chk)
    rule_timeparts(cx, chk)
    rule_owntime(cx, chk)
    chk.exhaustive = True
