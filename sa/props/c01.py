"""C01 - entity spans point at the text they claim (offset algebra).

C01.lenpres  every string transformer between a Model.parse `query` and its extractor is length-preserving
C01.span     (start, length, text) triples of output-flowing span objects are coherent wherever they are written
C01.end      every Model.parse derives start/end/text from one parse result with end = start + length - 1
C01.modpair  a parser that strips a modifier from its source restores exactly what it stripped
C01.recode   a result obtained from a re-coded deep copy gets the input's own text back
C01.textpair a result that leaves with the text its sub-parser copied was given a coherent triple (a cut prefix is put back)
"""
import ast
import re

from ..core import AnalysisError
from ..index import get_index
from ..inline import inline_helpers
from .. import symx, spans
from ..symx import Lin, as_lin, as_str

LEVEL = 'other'

SKIP_MOD_PREFIX = ('datatypes_timex_expression',)

# (module suffix, qualified function, object label) -> reason.  Sites the offset algebra cannot prove and that were
# read by hand; each is re-validated structurally: the exemption is honoured only while the site is still unproven
# for the *same* reason class, and is reported as stale when the site becomes provable.
EXEMPT = {
    ('recognizers_date_time.date_time.base_date', 'BaseDateExtractor.strip_inequality', 'extract_result'):
        ('unproven', 'duration ExtractResults of the duration sub-extractor, trimmed for relative_duration_date which '
                     'returns Tokens only; the trimmed objects never reach an extractor result'),
    ('recognizers_date_time.date_time.base_dateperiod', 'BaseDatePeriodExtractor.merge_two_time_points', 'now_extract_result'):
        ('unproven', 'text-less ExtractResult for "now" feeding merge_multiple_extractions, which builds Tokens from '
                     'start/length only'),
    ('recognizers_date_time.date_time.base_dateperiod', 'BaseDatePeriodParser._parse_now_as_date', 'parse_result'):
        ('unproven', 'internal DateTimeParseResult for "now": _merge_two_times_points reads only its start (ordering), '
                     'value and timex_str'),
}


def lib_functions(idx):
    for mod, cls, fn in idx.functions():
        if '.resources.' in mod.name or mod.name.startswith(SKIP_MOD_PREFIX) or mod.name.startswith('recognizers_suite'):
            continue
        yield mod, cls, fn


def span_writes(fn):
    """stores X.start / X.length / X.text / X.end where X is a name or an element of a named list
    (deeper chains such as result.future_value.start are datetime ranges, not character spans)"""
    out = []
    for n in ast.walk(fn):
        if isinstance(n, ast.Attribute) and isinstance(n.ctx, ast.Store) and n.attr in ('text', 'start', 'length', 'end'):
            v = n.value
            if isinstance(v, ast.Name) and v.id != 'self':
                out.append(n)
            elif isinstance(v, ast.Subscript) and isinstance(v.value, ast.Name) and not isinstance(v.slice, ast.Slice):
                out.append(n)
    return out


def output_flow_names(fn, is_parser_entry=False, with_returned=True):
    """names of objects that reach the function's results: parameters, elements of parameter lists, returned
    names, names appended / stored into returned lists (closure over plain aliasing)"""
    allp = list(fn.args.args) + list(fn.args.kwonlyargs) + list(fn.args.posonlyargs)
    params = {a.arg for a in allp} - {'self', 'cls'}
    if is_parser_entry:
        # the ExtractResult handed to a parser method is consumed: models keep only the returned ParseResult(s).
        # Parameters that carry ParseResults (or lists of them) are outputs being finished in place and do flow.
        params = {a.arg for a in allp if a.arg not in ('self', 'cls') and a.annotation is not None
                  and 'ParseResult' in ast.unparse(a.annotation)}
    flow = set(params)
    returned = set()
    for n in ast.walk(fn):
        if isinstance(n, ast.Return) and n.value is not None:
            for x in ast.walk(n.value):
                if isinstance(x, ast.Name):
                    returned.add(x.id)
    if with_returned:
        flow |= returned
    changed = True
    while changed:
        changed = False
        for n in ast.walk(fn):
            new = set()
            if isinstance(n, ast.For):
                it = n.iter
                while isinstance(it, ast.Call) and isinstance(it.func, ast.Name) and it.args \
                        and it.func.id in ('enumerate', 'reversed', 'sorted', 'list', 'filter', 'iter'):
                    it = it.args[-1] if it.func.id == 'filter' else it.args[0]
                if isinstance(it, ast.Name) and it.id in flow:
                    new |= _names(n.target)
            elif isinstance(n, ast.Call) and isinstance(n.func, ast.Attribute) and n.func.attr in ('append', 'insert', 'extend', 'add'):
                base = _root(n.func.value)
                if base in flow:
                    for a in n.args:
                        if isinstance(a, ast.Name):
                            new.add(a.id)
            elif isinstance(n, ast.Assign):
                for t in n.targets:
                    if isinstance(t, ast.Name):
                        # alias / element of a flowing container / copy target that is flowing
                        if isinstance(n.value, ast.Name) and (n.value.id in flow or t.id in flow):
                            new |= {t.id, n.value.id}
                        elif isinstance(n.value, ast.Subscript) and _root(n.value.value) in flow and not isinstance(n.value.slice, ast.Slice):
                            new.add(t.id)
                        elif isinstance(n.value, ast.Call) and isinstance(n.value.func, ast.Name) and n.value.func.id == 'next' \
                                and n.value.args and _next_source(n.value.args[0]) in flow:
                            new.add(t.id)
                    elif isinstance(t, ast.Subscript) and _root(t.value) in flow and isinstance(n.value, ast.Name):
                        new.add(n.value.id)
            if new - flow:
                flow |= new
                changed = True
    return flow


def _names(e):
    return {x.id for x in ast.walk(e) if isinstance(x, ast.Name)}


def _next_source(e):
    """next(iter(X)) / next((v for v in X if ...)) -> root name of X when X is not itself a call result"""
    if isinstance(e, ast.Call) and isinstance(e.func, ast.Name) and e.func.id == 'iter' and e.args:
        e = e.args[0]
    elif isinstance(e, ast.GeneratorExp):
        e = e.generators[0].iter
    if isinstance(e, ast.Call):
        return None
    return _root(e)


def _root(e):
    while isinstance(e, (ast.Attribute, ast.Subscript, ast.Call)):
        e = e.func if isinstance(e, ast.Call) else e.value
    return e.id if isinstance(e, ast.Name) else None


def _clean(text):
    """normal form of a verdict text: no object counters (`#12`, `('new', 'loop.idx', 12)` -> `loop.idx`), no nested quoting"""
    text = spans.strip_ids(text).replace('\\', '')
    return re.sub(r"\('new', '([\w.]+)', \d+\)", r'\1', text)


_FACTS = {}


def facts_for(idx, mod):
    if mod.name not in _FACTS:
        f = symx.facts_from_index(idx, mod, spans.SPAN_CLASSES)
        f.len_pairs.add(('unit', 'offset'))
        f.method_types['parse'] = 'ParseResult'
        _FACTS[mod.name] = f
    return _FACTS[mod.name]


def choice_facts(idx, mod):
    """ChoiceModel.parse derives end from len(text): sound iff no alternative of the patterns that feed it can begin
    or end with whitespace (then len(text.strip()) == length); that side condition is rule C01.choice-edges"""
    import copy
    f = copy.copy(facts_for(idx, mod))
    f.len_pairs = set(f.len_pairs) | {('text', 'length')}
    return f


def is_parser_class(idx, cls):
    if cls is None:
        return False
    return any(k.name in ('Parser', 'DateTimeParser') for k in idx.mro(cls))


def repair_loops(fn):
    """iterables X with a later loop `for v in X: v.text = S[v.start:v.start + v.length]` (deferred text repair)"""
    out = {}
    for n in ast.walk(fn):
        if isinstance(n, ast.For) and isinstance(n.target, ast.Name):
            v = n.target.id
            for st in n.body:
                if isinstance(st, ast.Assign) and len(st.targets) == 1 and isinstance(st.targets[0], ast.Attribute) \
                        and st.targets[0].attr == 'text' and isinstance(st.targets[0].value, ast.Name) \
                        and st.targets[0].value.id == v and isinstance(st.value, ast.Subscript) \
                        and isinstance(st.value.slice, ast.Slice):
                    lo, hi = st.value.slice.lower, st.value.slice.upper
                    if lo is not None and hi is not None and ast.unparse(lo) == '%s.start' % v \
                            and ast.unparse(hi) in ('%s.start + %s.length' % (v, v), '%s.length + %s.start' % (v, v)):
                        out[ast.unparse(n.iter)] = n.lineno
    return out


def loops_of(fn, varname):
    """(iterable text, line) of every `for varname in X`"""
    return [(ast.unparse(n.iter), n.lineno) for n in ast.walk(fn)
            if isinstance(n, ast.For) and isinstance(n.target, ast.Name) and n.target.id == varname]


MATCH_CALLS = ('match_begin', 'match_end', 'exact_match', 'search', 'match', 'fullmatch')


def match_variables(fn):
    out = []
    for n in ast.walk(fn):
        if isinstance(n, ast.Assign) and len(n.targets) == 1 and isinstance(n.targets[0], ast.Name) \
                and isinstance(n.value, ast.Call) and isinstance(n.value.func, ast.Attribute) and n.value.func.attr in MATCH_CALLS:
            if n.targets[0].id not in out:
                out.append(n.targets[0].id)
    return out


def declared_pairs(fn, mv):
    """pairs (A, X) of regex-match locals whose combination the function itself handles: the branch guarded by X's
    success contains a test on A (e.g. `if not (around_match and around_match.success)` inside the before/after/since
    branches).  Other combinations are not explored by the scenario slicing (stated bound)."""
    pairs = []
    # a flag bound once to a test over match locals (`around_found = bool(around_match and around_match.success)`) stands for them
    alias = {}
    binds = {}
    for n in ast.walk(fn):
        if isinstance(n, ast.Assign) and len(n.targets) == 1 and isinstance(n.targets[0], ast.Name):
            binds.setdefault(n.targets[0].id, []).append(n.value)
    for name, vals in binds.items():
        if len(vals) == 1 and name not in mv and (_names(vals[0]) & set(mv)) \
                and not any(isinstance(x, ast.Call) and isinstance(x.func, ast.Attribute) and x.func.attr in MATCH_CALLS
                            for x in ast.walk(vals[0])):
            alias[name] = _names(vals[0]) & set(mv)

    def mvs(test):
        out = _names(test) & set(mv)
        for nm in _names(test):
            out |= alias.get(nm, set())
        return out
    for n in ast.walk(fn):
        if not isinstance(n, ast.If):
            continue
        tn = mvs(n.test)
        for x in tn:
            for sub in n.body:
                for m in ast.walk(sub):
                    if isinstance(m, ast.If):
                        for a in mvs(m.test) - {x}:
                            if (a, x) not in pairs and (x, a) not in pairs:
                                pairs.append((a, x))
    return pairs


def run_walker(fn, facts, on_check, clsname, focus=None, always_slice=False):
    """one walk; when the path budget is exceeded, the function is re-walked scenario by scenario: none, each one, and
    each declared pair of its regex-match locals are allowed to be non-None (the others are assumed None where they
    are assigned).  Returns (overflowed_after_slicing, scenarios_run).
    always_slice: explore the scenarios whether or not the single walk fits the budget, so that WHICH combinations of matches
    are judged does not depend on how many paths the current formulation of the function happens to have (combinations the
    function does not handle together - around + equal - cannot occur for one entity text but are not refutable here)."""
    mv = match_variables(fn)
    if not (always_slice and len(mv) >= 3):
        w = symx.Walker(fn, facts, on_check, clsname, focus=focus).run()
        if not w.overflow:
            return False, 0
        if len(mv) < 3:
            return True, 0
    still = False
    scenarios = [()] + [(v,) for v in mv] + declared_pairs(fn, mv)
    for keep in scenarios:
        w2 = symx.Walker(fn, facts, on_check, clsname, focus=focus, max_paths=1500,
                         assume_none=[v for v in mv if v not in keep]).run()
        still = still or w2.overflow
    return still, len(scenarios)


def adjacent_names(fn):
    """names bound to an element of a list that is filtered by `v.start == <X>.start + <X>.length` (through locals that
    snapshot X.start / X.length), directly (`y = L[0]`) or as loop variable: such an entity stands right behind X"""
    snaps = {}
    for n in ast.walk(fn):
        if isinstance(n, ast.Assign) and len(n.targets) == 1 and isinstance(n.targets[0], ast.Name) \
                and isinstance(n.value, ast.Attribute) and isinstance(n.value.value, ast.Name) and n.value.attr in ('start', 'length'):
            snaps.setdefault(n.targets[0].id, set()).add((n.value.value.id, n.value.attr))

    def parts(e):
        """{(obj, attr)} summed by expression e, or None"""
        if isinstance(e, ast.BinOp) and isinstance(e.op, ast.Add):
            a, b = parts(e.left), parts(e.right)
            return None if a is None or b is None else a + b
        if isinstance(e, ast.Attribute) and isinstance(e.value, ast.Name) and e.attr in ('start', 'length'):
            return [(e.value.id, e.attr)]
        if isinstance(e, ast.Name) and e.id in snaps and len(snaps[e.id]) == 1:
            return [list(snaps[e.id])[0]]
        return None
    lists = set()
    for n in ast.walk(fn):
        if isinstance(n, ast.Assign) and len(n.targets) == 1 and isinstance(n.targets[0], ast.Name) \
                and isinstance(n.value, ast.ListComp) and len(n.value.generators) == 1:
            g = n.value.generators[0]
            if not isinstance(g.target, ast.Name):
                continue
            v = g.target.id
            conds = []
            for c in g.ifs:
                conds.extend(c.values if isinstance(c, ast.BoolOp) and isinstance(c.op, ast.And) else [c])
            for c in conds:
                if isinstance(c, ast.Compare) and len(c.ops) == 1 and isinstance(c.ops[0], ast.Eq):
                    for a, b in ((c.left, c.comparators[0]), (c.comparators[0], c.left)):
                        if isinstance(a, ast.Attribute) and isinstance(a.value, ast.Name) and a.value.id == v and a.attr == 'start':
                            ps = parts(b)
                            if ps and len(ps) == 2 and ps[0][0] == ps[1][0] and {ps[0][1], ps[1][1]} == {'start', 'length'}:
                                lists.add(n.targets[0].id)
    out = set()
    for n in ast.walk(fn):
        if isinstance(n, ast.Assign) and len(n.targets) == 1 and isinstance(n.targets[0], ast.Name) \
                and isinstance(n.value, ast.Subscript) and isinstance(n.value.value, ast.Name) and n.value.value.id in lists:
            out.add(n.targets[0].id)
        if isinstance(n, ast.For) and isinstance(n.target, ast.Name) and isinstance(n.iter, ast.Name) and n.iter.id in lists:
            out.add(n.target.id)
    return out


def analyse_function(idx, mod, cls, fn, focus=None):
    """-> dict label -> list of (verdict, why, fields, line, checkpoint kind, names)"""
    res = {}
    fn, _ = inline_helpers(idx, mod, cls, fn)
    spans.ADJACENT = adjacent_names(fn)
    facts = facts_for(idx, mod)
    if cls is not None and any(k.name == 'ChoiceModel' for k in idx.mro(cls)):
        # every method of the choice model (parse and helpers extracted from it) derives end from len(text)
        facts = choice_facts(idx, mod)

    def on_check(w, st, oid, flds, node, why):
        names = spans.names_of(st, oid)
        label = names[0] if names else spans.strip_ids(symx.show_atom(oid))
        if not names and isinstance(oid, tuple) and len(oid) == 3 and oid[0] == 'item':
            # an unnamed element of a list built in this function (`result[group].length = ...`): it reaches the results exactly
            # when the list does, so it is classified by the names of the list and reported as `<list>[]`
            cont = oid[1]
            while not spans.names_of(st, cont) and isinstance(cont, tuple) and len(cont) == 3 and cont[0] == 'item':
                cont = cont[1]
            cnames = spans.names_of(st, cont)
            if cnames:
                names = list(cnames)
                label = cnames[0] + '[]'
        cls_ = st.objcls.get(oid)
        has_text = ('text' in flds) or (oid, 'text') in st.heap or cls_ in (None, 'ExtractResult', 'ParseResult',
                                                                          'DateTimeParseResult', 'ModelResult', 'MatchResult')
        if not has_text:
            return
        s = as_lin(w.field(st, oid, 'start'))
        t = as_str(w.field(st, oid, 'text'))
        if 'end' in flds and 'length' not in flds and (oid, 'length') not in st.heap:
            l = as_lin(w.field(st, oid, 'end')) - s + Lin(1)
            kind = 'end'
        else:
            l = as_lin(w.field(st, oid, 'length'))
            kind = 'length'
        v = spans.judge_text(w, st, t, s, l, 0, oid)
        if v[0] != 'ok' and not (set(flds) & {'start', 'length', 'end'}):
            # text-only write on the result of a callee that was handed object o3: by the parser contract
            # (ParseResult copies start/length of its source) judge against o3's current start/length
            for (o3, s3, l3) in st.derived.get(oid, ()):
                v3 = spans.judge_text(w, st, t, s3, l3, 0, oid)
                if v3[0] == 'ok':
                    v = ('ok', 'text restored relative to the source the callee was given (' + v3[1] + ')')
                    break
        retn = None
        if why == 'exit' and isinstance(node, ast.Return):
            retn = tuple(sorted(_names(node.value))) if node.value is not None else ()
        res.setdefault(label, []).append((v[0], _clean(v[1]), tuple(sorted(flds)), getattr(node, 'lineno', fn.lineno),
                                          why, tuple(names), kind, retn))

    overflow, scen = run_walker(fn, facts, on_check, cls.name if cls else None, focus=focus)
    return res, (overflow, scen)


def qual(cls, fn):
    return (cls.name + '.' if cls else '') + fn.name


def run(chk):
    idx = get_index()
    chk.explanation = ('offset algebra: linear normal forms of (start, length, text) at every write of a span object, '
                       'length effect of the normalisation pipeline, inclusive-end construction in the models')
    run_lenpres(chk, idx)
    run_modpair(chk, idx)
    chk.rule('C01.span', 'span triples of output-flowing objects are coherent wherever written (I1 copy, I2 slice, '
             'I3 match, I4 affix growth, I5 shrink)', floor=30)
    n_fn = 0
    unrecognised = []
    for mod, cls, fn in lib_functions(idx):
        if fn.name == '__init__' or not span_writes(fn):
            continue
        n_fn += 1
        chk.consulted(mod.path)
        flow = output_flow_names(fn, is_parser_class(idx, cls))
        flow_noret = output_flow_names(fn, is_parser_class(idx, cls), with_returned=False)
        q = qual(cls, fn)
        roots = {symx._rootname(w_.value) for w_ in span_writes(fn)}
        focus = {r for r in roots if r in flow}
        grew = bool(focus)
        while grew:
            grew = False
            for n_ in ast.walk(fn):
                tgt = val = None
                if isinstance(n_, ast.Assign) and len(n_.targets) == 1:
                    tgt, val = n_.targets[0], n_.value
                elif isinstance(n_, ast.AugAssign):
                    tgt, val = n_.target, n_.value
                if tgt is not None and isinstance(tgt, ast.Attribute) and tgt.attr in ('text', 'start', 'length', 'end') \
                        and symx._rootname(tgt.value) in focus:
                    more = (_names(val) & roots) - focus
                    if more:
                        focus |= more
                        grew = True
        if not focus:
            chk.exempt('C01.span', mod.path, q + '::*', 'every span object written here is internal (%s): none reaches '
                       'the function\'s results' % ', '.join(sorted(str(r) for r in roots)), 'internal')
            continue
        res, overflow = analyse_function(idx, mod, cls, fn, focus)
        repairs = repair_loops(fn)
        for label, rows in sorted(res.items()):
            names = set()
            for r in rows:
                names |= set(r[5])
            base = label.split('[')[0].split('.')[0]
            flowing = False
            worst = 'ok'
            detail = ''
            line = rows[0][3]
            for r in rows:
                rn = set(r[5]) | {base}
                if r[7] is not None:
                    # the path ends in `return <expr>`: the object is an output only if that expression names it
                    # (or it reached a parameter / result container before)
                    if not (rn & flow_noret or rn & set(r[7])):
                        continue
                elif not (rn & flow):
                    continue
                flowing = True
                if r[0] != 'ok' and r[4] == 'iteration-end' and not (set(r[2]) & {'text'}):
                    if any(it in repairs and repairs[it] > ln for it, ln in loops_of(fn, label)):
                        continue        # start/length adjusted now, text recomputed from them by the later repair loop
                if r[0] == 'incoherent' and worst != 'incoherent':
                    worst, detail, line = 'incoherent', r[1], r[3]
                elif r[0] == 'unproven' and worst == 'ok':
                    worst, detail, line = 'unproven', r[1], r[3]
            construct = '%s::%s' % (q, label)
            ex = EXEMPT.get((mod.name, q, label))
            if ex and ex[0] != worst:
                ex = None if worst != 'ok' else ex
            if worst == 'ok':
                if ex:
                    chk.observe('stale exemption: %s %s is now proved coherent' % (mod.name, construct))
                chk.ok('C01.span', mod.path, construct, rows[0][1], line)
            elif not flowing:
                chk.exempt('C01.span', mod.path, construct, 'internal object: does not reach the function\'s results '
                           '(%s: %s)' % (worst, detail[:120]), 'internal', line)
            elif ex:
                chk.exempt('C01.span', mod.path, construct, ex[1], 'table', line)
            elif worst == 'incoherent':
                chk.bad('C01.span', mod.path, construct, detail, 'span not coherent in %s for `%s`: %s' % (q, label, detail), line)
            else:
                unrecognised.append('%s:%d %s: span write idiom not recognised for `%s` (%s)' % (mod.rel, line, q, label, detail[:160]))
        if overflow[1]:
            chk.observe('%s %s: path budget exceeded; re-analysed in %d scenarios (each regex-match local alone, and the pairs the '
                        'function handles together)%s' % (mod.name, q, overflow[1], '; some scenarios still exceed the budget' if overflow[0] else ''))
        elif overflow[0]:
            chk.observe('%s %s: path budget exceeded, remaining paths not explored' % (mod.name, q))
    chk.extra['functions_with_span_writes'] = n_fn
    if unrecognised:
        raise AnalysisError('; '.join(unrecognised) + ' -- read the site(s) and either extend the idioms or add a reviewed exemption')


META = {
    'text': 'Offset algebra (linear normal forms, path-enumerating, no solver) over every function that writes '
            'start/length/text/end of a span object (about 60 functions): for every object that reaches the function\'s '
            'results the triple must be coherent at each escape point by one of the enumerated idioms (copy, slice '
            'S[start:start+length], match group, affix growth, shrink, text restored relative to the callee\'s source, '
            'deferred repair loop); ModelResult construction must be start = X.start, end = X.start + X.length - 1, '
            'text = X.text for one X. Plus a length-effect analysis of the normalisation pipeline: only length-preserving '
            'transformers between a Model.parse query and the extractor, and no offsets taken in a case-folded copy. '
            'C01.textpair: where a function cuts X.text (start/length left on the uncut text), hands X to a span-copying '
            'method of its class and finishes the result, no path lets the result leave with the callee\'s (cut) text. '
            'These are necessary conditions of C01 visible in the shape of the code; an off-by-one or a dropped '
            'adjustment in any of these sites changes a normal form and is reported with both forms.',
    'note': 'Not decided: that the regex positions are where the entity is (input-dependent), 0 <= start <= end < len '
            'beyond what coherence implies, correctness of spans handed over by callees (the parser contract '
            '"ParseResult copies start/length of its source" is assumed), objects classified internal (they do not reach '
            'the function results by the syntactic flow criterion: parameters, returned names, appended elements). '
            'Three unprovable sites are exempt by a reviewed table (EXEMPT in c01.py); functions whose path budget is '
            'exceeded are listed as observations. C01.textpair does not judge paths on which nothing is written to the result '
            'after the call, callees that are not plain span copiers of the same class, nor whole-string replacements '
            '(C01.recode). Known finding: BaseNumberParser.parse (negative merged numbers).',
    'technique': 'intra-procedural symbolic offset algebra (linear normal forms) + length-effect dataflow of the normalisation pipeline',
}


# ---------------------------------------------------------------------------------------------------------------
# C01.lenpres - length effect of the normalisation pipeline

NONPRESERVING = {'lower': 'whole-string lower() can change the length (U+0130 lower-cases to two code points)',
                 'upper': 'whole-string upper() can change the length (U+00DF upper-cases to "SS")',
                 'casefold': 'casefold() can change the length', 'title': 'title() can change the length',
                 'capitalize': 'capitalize() can change the length',
                 'strip': 'strip() removes characters', 'lstrip': 'lstrip() removes characters',
                 'rstrip': 'rstrip() removes characters', 'normalize': 'unicode normalisation changes the length',
                 'sub': 'regex substitution may change the length', 'translate': 'translate() may change the length',
                 'expandtabs': 'expandtabs() changes the length', 'format': 'format() changes the length'}


class LenEffect:
    def __init__(self, idx, trust_preprocess=False):
        self.idx = idx
        self.memo = {}
        self.trust_preprocess = trust_preprocess    # model level: preprocess is judged by its own instance

    def function_effect(self, mod, cls, fn, pname, depth=0):
        """-> list of (ok, why, line) for every return value of fn, relative to parameter pname"""
        key = (mod.name, cls.name if cls else None, fn.name, pname)
        if key in self.memo:
            return self.memo[key]
        self.memo[key] = [(False, 'recursive normaliser', fn.lineno)]
        out = []
        self._block(mod, cls, fn.body, {pname: ('same', None)}, out, depth)
        if not out:
            out = [(False, 'no return value', fn.lineno)]
        self.memo[key] = out
        return out

    def _block(self, mod, cls, stmts, env, out, depth):
        for s in stmts:
            if isinstance(s, (ast.Assign, ast.AnnAssign)) and getattr(s, 'value', None) is not None:
                tgts = s.targets if isinstance(s, ast.Assign) else [s.target]
                v = self._expr(mod, cls, s.value, env, depth)
                for t in tgts:
                    if isinstance(t, ast.Name):
                        env[t.id] = v
                    elif isinstance(t, ast.Subscript) and isinstance(t.value, ast.Name) and env.get(t.value.id, ('other',))[0] == 'list':
                        if isinstance(t.slice, ast.Slice):
                            env[t.value.id] = ('other', 'slice assignment on the character list', s.lineno)
            elif isinstance(s, ast.AugAssign) and isinstance(s.target, ast.Name):
                env[s.target.id] = ('other', 'augmented assignment', s.lineno)
            elif isinstance(s, ast.If):
                e1, e2 = dict(env), dict(env)
                self._block(mod, cls, s.body, e1, out, depth)
                self._block(mod, cls, s.orelse, e2, out, depth)
                for k in set(e1) | set(e2):
                    a, b = e1.get(k), e2.get(k)
                    if a is None or b is None:
                        env[k] = a or b
                    elif a[0] == b[0] and a[0] in ('same', 'list'):
                        env[k] = a
                    else:
                        env[k] = a if a[0] == 'other' else b
            elif isinstance(s, (ast.For, ast.While)):
                self._block(mod, cls, s.body, env, out, depth)
            elif isinstance(s, ast.Expr) and isinstance(s.value, ast.Call):
                self._call_stmt(mod, cls, s.value, env, depth)
            elif isinstance(s, ast.Return) and s.value is not None:
                v = self._expr(mod, cls, s.value, env, depth)
                if v[0] == 'same':
                    out.append((True, 'length-preserving', s.lineno))
                else:
                    out.append((False, v[1] if len(v) > 1 and v[1] else 'not derived from the input by preserving steps',
                                v[2] if len(v) > 2 else s.lineno))
            elif isinstance(s, (ast.Try, ast.With)):
                self._block(mod, cls, s.body, env, out, depth)

    def _call_stmt(self, mod, cls, call, env, depth):
        # f(..., L, ...) with L a character list: callee may only do single-element stores on that parameter
        for i, a in enumerate(call.args):
            if isinstance(a, ast.Name) and env.get(a.id, ('other',))[0] == 'list':
                callee = self._resolve(mod, cls, call.func)
                ok = False
                if callee is not None:
                    cm, cc, cf = callee
                    params = [x.arg for x in cf.args.args]
                    if cc is not None and params and params[0] in ('self', 'cls'):
                        params = params[1:]
                    if i < len(params):
                        ok = self._list_only_element_stores(cf, params[i])
                if isinstance(call.func, ast.Attribute) and call.func.attr in ('append', 'insert', 'extend', 'pop', 'remove', 'clear'):
                    ok = False
                if not ok:
                    env[a.id] = ('other', 'character list handed to %s which may change its length' % ast.unparse(call.func), call.lineno)
        if isinstance(call.func, ast.Attribute) and isinstance(call.func.value, ast.Name) \
                and env.get(call.func.value.id, ('other',))[0] == 'list' \
                and call.func.attr in ('append', 'insert', 'extend', 'pop', 'remove', 'clear', 'sort', 'reverse'):
            env[call.func.value.id] = ('other', 'character list %s()' % call.func.attr, call.lineno)

    @staticmethod
    def _list_only_element_stores(fn, pname):
        for n in ast.walk(fn):
            if isinstance(n, ast.Call) and isinstance(n.func, ast.Attribute) and isinstance(n.func.value, ast.Name) \
                    and n.func.value.id == pname and n.func.attr in ('append', 'insert', 'extend', 'pop', 'remove', 'clear'):
                return False
            if isinstance(n, ast.Delete):
                return False
            if isinstance(n, ast.Subscript) and isinstance(n.ctx, ast.Store) and isinstance(n.value, ast.Name) and n.value.id == pname:
                if isinstance(n.slice, ast.Slice):
                    return False
            if isinstance(n, ast.Assign) and any(isinstance(t, ast.Name) and t.id == pname for t in n.targets):
                return False
        # every store p[i] = v must take one character: v is an index (not slice) into a string or a 1-char literal
        for n in ast.walk(fn):
            if isinstance(n, ast.Assign):
                for t in n.targets:
                    if isinstance(t, ast.Subscript) and isinstance(t.value, ast.Name) and t.value.id == pname:
                        v = n.value
                        if isinstance(v, ast.Subscript) and not isinstance(v.slice, ast.Slice):
                            continue
                        if isinstance(v, ast.Constant) and isinstance(v.value, str) and len(v.value) == 1:
                            continue
                        return False
        return True

    def _resolve(self, mod, cls, f):
        idx = self.idx
        if isinstance(f, ast.Attribute) and isinstance(f.value, ast.Name):
            if f.value.id in ('self', 'cls') and cls is not None:
                k, m = idx.find_method(cls, f.attr)
                return (k.mod, k, m) if m is not None else None
            c = idx.resolve_class(mod, f.value)
            if c is not None:
                k, m = idx.find_method(c, f.attr)
                return (k.mod, k, m) if m is not None else None
        if isinstance(f, ast.Name):
            r = idx.resolve(mod, f.id)
            if r and r[0] == 'func':
                return (r[1], None, r[2])
        return None

    def _const_node(self, mod, cls, e, depth=0):
        """follow a name / Class.attr to the expression that defines it (class-level or module-level constant)"""
        idx = self.idx
        if depth > 4:
            return None, mod, cls
        if isinstance(e, ast.Name):
            if cls is not None:
                k, v = idx.class_attr(cls, e.id)
                if v is not None:
                    return self._const_node(k.mod, k, v, depth + 1)
            r = idx.resolve(mod, e.id)
            if r and r[0] == 'const':
                return self._const_node(r[1], None, r[2], depth + 1)
            return None, mod, cls
        if isinstance(e, ast.Attribute) and isinstance(e.value, ast.Name):
            c = idx.resolve_class(mod, e.value)
            if c is None and cls is not None and e.value.id in ('self', 'cls', cls.name):
                c = cls
            if c is not None:
                k, v = idx.class_attr(c, e.attr)
                if v is not None:
                    return self._const_node(k.mod, k, v, depth + 1)
            return None, mod, cls
        return e, mod, cls

    def _translate_table(self, mod, cls, e):
        """None when str.translate(table) maps every character to exactly one character, else why not / not evaluable"""
        node, m2, c2 = self._const_node(mod, cls, e)
        if node is None:
            return 'table %s is not a constant the checker can follow' % ast.unparse(e)[:60]

        def one_char(v):
            if isinstance(v, ast.Constant) and isinstance(v.value, str):
                return len(v.value) == 1
            if isinstance(v, ast.Constant) and isinstance(v.value, int) and not isinstance(v.value, bool):
                return True
            if isinstance(v, ast.Call) and isinstance(v.func, ast.Name) and v.func.id in ('ord', 'chr') and len(v.args) == 1:
                return one_char(v.args[0]) if v.func.id == 'ord' else True
            return False
        if isinstance(node, ast.Dict):
            bad = [ast.unparse(v) for v in node.values if not one_char(v)]
            return None if not bad and None not in node.keys else 'entry %s is not a single character' % (bad[0] if bad else '**')
        if isinstance(node, ast.Call) and isinstance(node.func, ast.Attribute) and node.func.attr == 'maketrans' \
                and isinstance(node.func.value, ast.Name) and node.func.value.id == 'str':
            if len(node.args) == 2 and all(isinstance(a, ast.Constant) and isinstance(a.value, str) for a in node.args) \
                    and len(node.args[0].value) == len(node.args[1].value):
                return None
            if len(node.args) == 1:
                return self._translate_table(m2, c2, node.args[0])
            return 'str.maketrans with a deletion argument or operands of different length'
        if isinstance(node, ast.DictComp) and len(node.generators) == 1 and not node.generators[0].ifs:
            g = node.generators[0]
            seq, m3, c3 = self._const_node(m2, c2, g.iter)
            if isinstance(seq, (ast.Tuple, ast.List)) and isinstance(g.target, ast.Tuple) \
                    and all(isinstance(t, ast.Name) for t in g.target.elts) and isinstance(node.value, ast.Name):
                names = [t.id for t in g.target.elts]
                if node.value.id in names:
                    pos = names.index(node.value.id)
                    for el in seq.elts:
                        if not (isinstance(el, (ast.Tuple, ast.List)) and len(el.elts) == len(names) and one_char(el.elts[pos])):
                            return 'pair %s does not map to a single character' % ast.unparse(el)[:40]
                    return None
            if isinstance(seq, ast.Call) and isinstance(seq.func, ast.Name) and seq.func.id == 'zip' and len(seq.args) == 2 \
                    and isinstance(node.value, ast.Name):
                a, _m, _c = self._const_node(m3, c3, seq.args[0])
                b, _m, _c = self._const_node(m3, c3, seq.args[1])
                if isinstance(a, ast.Constant) and isinstance(b, ast.Constant) and isinstance(a.value, str) \
                        and isinstance(b.value, str) and len(a.value) == len(b.value):
                    return None
        return 'table %s has a shape the checker does not evaluate' % ast.unparse(node)[:60]

    def _expr(self, mod, cls, e, env, depth):
        if isinstance(e, ast.Name):
            return env.get(e.id, ('other', 'value %s is not derived from the input' % e.id, e.lineno))
        if isinstance(e, ast.IfExp):
            a = self._expr(mod, cls, e.body, env, depth)
            b = self._expr(mod, cls, e.orelse, env, depth)
            if a[0] == b[0] and a[0] in ('same', 'list'):
                return a
            return a if a[0] == 'other' else b
        if isinstance(e, ast.Call):
            f = e.func
            if isinstance(f, ast.Attribute):
                recv = self._expr(mod, cls, f.value, env, depth) if not (isinstance(f.value, ast.Constant)) else None
                if recv is not None and recv[0] == 'same':
                    if f.attr == 'replace' and len(e.args) >= 2:
                        a, b = e.args[0], e.args[1]
                        if isinstance(a, ast.Constant) and isinstance(b, ast.Constant) and isinstance(a.value, str) \
                                and isinstance(b.value, str) and len(a.value) == len(b.value) and len(e.args) == 2:
                            return ('same', None)
                        return ('other', 'replace(%s, %s) does not keep the length' % (ast.unparse(a), ast.unparse(b)), e.lineno)
                    if f.attr == 'translate' and len(e.args) == 1:
                        why = self._translate_table(mod, cls, e.args[0])
                        if why is None:
                            return ('same', None)
                        return ('other', 'translate() with a table that does not keep the length: ' + why, e.lineno)
                    if f.attr in NONPRESERVING:
                        return ('other', NONPRESERVING[f.attr], e.lineno)
                    return ('other', 'string method %s() with unknown length effect' % f.attr, e.lineno)
                if isinstance(f.value, ast.Constant) and f.value.value == '' and f.attr == 'join' and len(e.args) == 1:
                    a = e.args[0]
                    if isinstance(a, ast.Name) and env.get(a.id, ('other',))[0] == 'list':
                        return ('same', None)
                    if isinstance(a, (ast.GeneratorExp, ast.ListComp)) and len(a.generators) == 1 and not a.generators[0].ifs \
                            and isinstance(a.generators[0].target, ast.Name):
                        src = self._expr(mod, cls, a.generators[0].iter, env, depth)
                        if src[0] in ('same', 'list') and self._charwise(a.elt, a.generators[0].target.id):
                            return ('same', None)
                        return ('other', 'join over a comprehension that is not provably one character per input character', e.lineno)
                    return ('other', "''.join of something that is not the character list of the input", e.lineno)
                if f.attr == 'normalize':
                    return ('other', NONPRESERVING['normalize'], e.lineno)
            if isinstance(f, ast.Name) and f.id == 'list' and len(e.args) == 1:
                a = self._expr(mod, cls, e.args[0], env, depth)
                if a[0] == 'same':
                    return ('list', None)
                return ('other', a[1] if len(a) > 1 else 'list of a non-preserved string', a[2] if len(a) > 2 else e.lineno)
            if isinstance(f, ast.Name) and f.id == 'str' and len(e.args) == 1:
                return self._expr(mod, cls, e.args[0], env, depth)
            callee = self._resolve(mod, cls, f)
            if callee is not None and self.trust_preprocess and callee[1] is not None \
                    and callee[1].name == 'QueryProcessor' and callee[2].name == 'preprocess':
                return self._expr(mod, cls, e.args[0], env, depth) if e.args else ('other', 'no argument', e.lineno)
            if callee is not None and depth < 4:
                cm, cc, cf = callee
                params = [x.arg for x in cf.args.args]
                if cc is not None and params and params[0] in ('self', 'cls'):
                    params = params[1:]
                hits = [i for i, a in enumerate(e.args) if self._expr(mod, cls, a, env, depth)[0] == 'same']
                if len(hits) == 1 and hits[0] < len(params):
                    eff = self.function_effect(cm, cc, cf, params[hits[0]], depth + 1)
                    bad = [x for x in eff if not x[0]]
                    if not bad:
                        return ('same', None)
                    return ('other', '%s: %s' % (cf.name, bad[0][1]), bad[0][2])
            return ('other', 'call %s with unknown length effect' % ast.unparse(f)[:40], e.lineno)
        return ('other', 'expression %s' % type(e).__name__, getattr(e, 'lineno', 0))

    @staticmethod
    def _charwise(elt, c):
        """element expression yields exactly one character per character c"""
        if isinstance(elt, ast.Name) and elt.id == c:
            return True
        if isinstance(elt, ast.IfExp):
            t = elt.test
            # `E if len(E) == 1 else c`
            if isinstance(t, ast.Compare) and len(t.ops) == 1 and isinstance(t.ops[0], ast.Eq) \
                    and isinstance(t.comparators[0], ast.Constant) and t.comparators[0].value == 1 \
                    and isinstance(t.left, ast.Call) and isinstance(t.left.func, ast.Name) and t.left.func.id == 'len' \
                    and len(t.left.args) == 1 and ast.dump(t.left.args[0]) == ast.dump(elt.body) \
                    and isinstance(elt.orelse, ast.Name) and elt.orelse.id == c:
                return True
        return False


def model_classes(idx):
    base = idx.cls('recognizers_text.model.Model')
    return [c for c in idx.all_classes() if base in idx.mro(c) and c is not base]


def run_lenpres(chk, idx):
    chk.rule('C01.lenpres', 'only length-preserving transformers between the query and the strings whose offsets become '
             'spans (QueryProcessor.preprocess, Model.parse, extractor-level case folding)', floor=8, control=True)
    le = LenEffect(idx)
    um = idx.mod('recognizers_text.utilities')
    qp = um.classes.get('QueryProcessor')
    if qp is None or 'preprocess' not in qp.methods:
        raise AnalysisError('anchor vanished: QueryProcessor.preprocess')
    pre = qp.methods['preprocess']
    chk.consulted(um.path)
    first = [a.arg for a in pre.args.args if a.arg not in ('self', 'cls')][0]
    for ok, why, line in le.function_effect(um, qp, pre, first):
        chk.judge(ok, 'C01.lenpres', um.path, 'QueryProcessor.preprocess', why,
                  'QueryProcessor.preprocess does not preserve the query length: %s; every offset after the affected '
                  'character is shifted' % why, line)
    # Model.parse: query -> extract(...)
    le = LenEffect(idx, trust_preprocess=True)
    seen = 0
    for c in model_classes(idx):
        if 'parse' not in c.methods:
            continue
        fn = c.methods['parse']
        params = [a.arg for a in fn.args.args if a.arg != 'self']
        if not params:
            continue
        q = params[0]
        env = {q: ('same', None)}
        calls = []
        for s in ast.walk(fn):
            if isinstance(s, ast.Assign) and len(s.targets) == 1 and isinstance(s.targets[0], ast.Name):
                pass
        # straight-line scan in source order: assignments to the query variable, then extract(...) calls
        for s in sorted([n for n in ast.walk(fn) if isinstance(n, (ast.Assign, ast.Call))], key=lambda n: (n.lineno, n.col_offset)):
            if isinstance(s, ast.Assign) and len(s.targets) == 1 and isinstance(s.targets[0], ast.Name) \
                    and _names(s.value) & set(env):
                env[s.targets[0].id] = le._expr(c.mod, c, s.value, env, 0)
            elif isinstance(s, ast.Call) and isinstance(s.func, ast.Attribute) and s.func.attr == 'extract' and s.args:
                v = le._expr(c.mod, c, s.args[0], env, 0)
                seen += 1
                chk.consulted(c.mod.path)
                chk.judge(v[0] == 'same', 'C01.lenpres', c.mod.path, '%s.parse -> extract' % c.name,
                          'same' if v[0] == 'same' else v[1],
                          '%s.parse hands the extractor a string that is not a length-preserving image of the query: %s'
                          % (c.name, v[1] if len(v) > 1 else ''), s.lineno)
    if seen < 5:
        raise AnalysisError('found only %d Model.parse -> extract hand-overs (expected at least 5 model families)' % seen)
    # extractor-level: offsets computed in a case-folded copy of the parameter and applied to the original
    for mod, cls, fn in lib_functions(idx):
        if fn.name != 'extract' or cls is None:
            continue
        params = {a.arg for a in fn.args.args if a.arg != 'self'}
        for n in ast.walk(fn):
            if isinstance(n, ast.Assign) and len(n.targets) == 1 and isinstance(n.targets[0], ast.Name) \
                    and isinstance(n.value, ast.Call) and isinstance(n.value.func, ast.Attribute) \
                    and n.value.func.attr in ('lower', 'upper', 'casefold') and isinstance(n.value.func.value, ast.Name) \
                    and n.value.func.value.id in params:
                folded, orig = n.targets[0].id, n.value.func.value.id
                # names holding offsets computed in `folded` (index/find on it, or positions of matches searched in it)
                offnames = set()
                for x in ast.walk(fn):
                    if isinstance(x, ast.Assign) and len(x.targets) == 1 and isinstance(x.targets[0], ast.Name) \
                            and isinstance(x.value, ast.Call) and isinstance(x.value.func, ast.Attribute):
                        f_ = x.value.func
                        if isinstance(f_.value, ast.Name) and f_.value.id == folded and f_.attr in ('index', 'find', 'rfind', 'rindex'):
                            offnames.add(x.targets[0].id)
                # match objects of searches run over `folded`: their .start()/.end()/.span() are offsets into it
                mobjs = set()
                for x in ast.walk(fn):
                    it = x.iter if isinstance(x, ast.For) else x.value if isinstance(x, ast.Assign) else None
                    if isinstance(it, ast.Call) and isinstance(it.func, ast.Attribute) \
                            and it.func.attr in ('finditer', 'search', 'match', 'fullmatch') \
                            and any(isinstance(a, ast.Name) and a.id == folded for a in it.args):
                        tg = x.target if isinstance(x, ast.For) else x.targets[0]
                        if isinstance(tg, ast.Name):
                            mobjs.add(tg.id)
                for x in ast.walk(fn):
                    if isinstance(x, ast.Assign) and len(x.targets) == 1 and isinstance(x.targets[0], ast.Name):
                        for c_ in ast.walk(x.value):
                            if isinstance(c_, ast.Call) and isinstance(c_.func, ast.Attribute) and isinstance(c_.func.value, ast.Name) \
                                    and c_.func.value.id in mobjs and c_.func.attr in ('start', 'end', 'span'):
                                offnames.add(x.targets[0].id)
                grew = True
                while grew:
                    grew = False
                    for x in ast.walk(fn):
                        if isinstance(x, ast.Assign) and len(x.targets) == 1 and isinstance(x.targets[0], ast.Name) \
                                and x.targets[0].id not in offnames and _names(x.value) & offnames \
                                and isinstance(x.value, (ast.BinOp, ast.Name)):
                            offnames.add(x.targets[0].id)
                            grew = True
                used = False
                for x in ast.walk(fn):
                    if isinstance(x, ast.Subscript) and isinstance(x.slice, ast.Slice) and isinstance(x.value, ast.Name) \
                            and x.value.id == orig and _names(x.slice) & offnames:
                        used = True
                    if isinstance(x, ast.Assign) and any(isinstance(t, ast.Attribute) and t.attr in ('start', 'length')
                                                         for t in x.targets) and _names(x.value) & offnames:
                        used = True
                if used:
                    chk.bad('C01.lenpres', mod.path, '%s.extract' % cls.name, '%s = %s.%s()' % (folded, orig, n.value.func.attr),
                            '%s.extract computes offsets in %s = %s.%s() and applies them to %s / emits them as spans: '
                            '%s' % (cls.name, folded, orig, n.value.func.attr, orig, NONPRESERVING[n.value.func.attr]), n.lineno)
                else:
                    chk.ok('C01.lenpres', mod.path, '%s.extract' % cls.name, '%s = %s.%s() not used for offsets'
                           % (folded, orig, n.value.func.attr), n.lineno)
    # positive control
    ctl = ast.parse("class Q:\n    @staticmethod\n    def p(s):\n        r = s\n        r = r.replace('ab', 'c')\n        return r\n").body[0]

    class _M:
        name = 'ctl'
    eff = LenEffect(idx)
    out = []
    eff._block(um, None, ctl.body[0].body, {'s': ('same', None)}, out, 0)
    chk.control('C01.lenpres', bool(out) and not out[0][0])


# ---------------------------------------------------------------------------------------------------------------
# C01.modpair - push/pop pairing around an inner parse: a parser that cuts a modifier off the ExtractResult it was
# given (start += a, length -= b), parses the remainder and then widens the returned result again (start -= c,
# length += d) must give back exactly the span it received: a == c and b == d on every path that restores.

def _subst(lin, mapping):
    out = Lin(lin.c)
    for a, k in lin.t.items():
        out = out + (mapping[a].scale(k) if a in mapping else Lin(0, {a: k}))
    return out


def conditional_match_facts_hold(idx):
    """ConditionalMatch.length == len(ConditionalMatch.group()) read from the class"""
    c = idx.cls('recognizers_text.utilities.ConditionalMatch')
    ln = c.methods.get('length')
    if ln is None:
        return False
    rets = [ast.unparse(n.value) for n in ast.walk(ln) if isinstance(n, ast.Return) and n.value is not None]
    grp = [ast.unparse(n.value) for st in c.node.body if isinstance(st, ast.FunctionDef) and st.name == 'group'
           and not st.args.args[1:] for n in ast.walk(st) if isinstance(n, ast.Return) and n.value is not None]
    return len(rets) == 1 and len(grp) == 1 and rets[0] in ('len(%s) or 0' % grp[0], 'len(%s)' % grp[0])


def run_modpair(chk, idx):
    chk.rule('C01.modpair', 'a parser that strips a modifier from its source before the inner parse restores exactly what it '
             'stripped: the returned span equals the span it was given', floor=1, control=True)
    if not conditional_match_facts_hold(idx):
        raise AnalysisError('ConditionalMatch.length is no longer len(group()): the fact C01.modpair relies on must be re-read')
    chk.assume('C01.modpair: a successful RegExpUtility.match_begin(pattern, <entity>.text, trim=True) starts at offset 0 of '
               'the entity text (the code relies on it itself: it advances start by the match length alone)')
    targets = []
    for mod, cls, fn in lib_functions(idx):
        if cls is None or fn.name != 'parse' or not is_parser_class(idx, cls):
            continue
        params = [a.arg for a in fn.args.args if a.arg != 'self']
        if not params:
            continue
        src = params[0]
        fn, inl = inline_helpers(idx, mod, cls, fn)
        if inl:
            chk.observe('%s.parse: helper calls read as their bodies: %s' % (cls.name, ', '.join(sorted(set(inl)))))
        writes_src = any(isinstance(n, ast.Attribute) and isinstance(n.ctx, ast.Store) and n.attr in ('start', 'length')
                         and isinstance(n.value, ast.Name) and n.value.id == src for n in ast.walk(fn))
        if writes_src:
            targets.append((mod, cls, fn, src))
    for mod, cls, fn, src in targets:
        _modpair_function(chk, idx, mod, cls, fn, src, chk)
    # positive control: restore one character short
    ctl = ast.parse('''
class P(Parser):
    def parse(self, source, reference=None):
        m = RegExpUtility.match_begin(self.config.before_regex, source.text, True)
        has = False
        mod_str = ''
        if m and m.success:
            has = True
            source.start += m.length
            source.length -= m.length
            source.text = source.text[m.length:]
            mod_str = m.group()
        result = self.parse_result(source, reference)
        if has and result.value:
            result.length += len(mod_str) - 1
            result.start -= len(mod_str)
            result.text = mod_str + result.text
        return result
''').body[0]

    class _Sink:
        def __init__(self):
            self.bad_n = 0

        def bad(self, *a, **k):
            self.bad_n += 1

        def ok(self, *a, **k):
            pass

        def observe(self, *a, **k):
            pass

        def consulted(self, *a, **k):
            pass
    sink = _Sink()
    um = idx.mod('recognizers_text.utilities')
    _modpair_function(sink, idx, um, None, ctl.body[0], 'source', chk, clsname='P')
    chk.control('C01.modpair', sink.bad_n > 0)


_CBBA = {}


def _check_both_before_after_false(idx):
    """True when every date-time resource class defines CheckBothBeforeAfter = False"""
    if 'v' not in _CBBA:
        from ..consteval import Resources
        R = Resources(idx)
        vals = []
        for m in idx.mods.values():
            if m.name.startswith('recognizers_date_time.resources.'):
                for c in m.classes.values():
                    v = R.values(c).get('CheckBothBeforeAfter')
                    if v is not None:
                        vals.append(v)
        _CBBA['v'] = bool(vals) and all(v is False for v in vals)
    return _CBBA['v']


_SUFFIX_GROWTH = {}


def _suffix_growth_ends_in_modifier(idx, chk):
    """True when the merged extractor's suffix step ("<entity> or after") can hand the parser an entity whose text ENDS in a
    complete word of after_regex: then the parser's match_end(after_regex, text) succeeds and its suffix-modifier paths are live
    whatever CheckBothBeforeAfter says.  Decided on the add_mod tabulation of C12 (token strings; xx = entity, oo aa = the
    suffix phrase, aa also being the after word): today the grown text is cut one character short ('xx oo a'), which keeps
    those paths dead."""
    if 'v' not in _SUFFIX_GROWTH:
        from . import c12
        cname = 'recognizers_date_time.date_time.base_merged.BaseMergedExtractor'
        cls = idx.cls(cname)
        er_cls = idx.cls('recognizers_text.extractor.ExtractResult')
        consts = idx.cls('recognizers_date_time.date_time.constants.Constants')
        dt = consts.attrs.get('SYS_DATETIME_DATE') if consts else None
        if cls is None or not (isinstance(dt, ast.Constant) and isinstance(dt.value, str)):
            raise AnalysisError('anchor vanished: BaseMergedExtractor / Constants.SYS_DATETIME_DATE')
        live = False
        shown = None
        for tokens in (('X', 'o', 'a'), ('w', 'X', 'o', 'a'), ('X', 'o', 'a', 'w')):
            source, res = c12.addmod_run(idx, cls, c12.ADDMOD[cname], tokens, (0,), er_cls, dt.value)
            if res and res[0] == 'raises':
                raise AnalysisError('add_mod raises on %r: %s' % (source, res[1]))
            for (_b, _a, text) in res:
                if text.rstrip().endswith('aa') and len(text) > 2:
                    live, shown = True, (source, text)
        _SUFFIX_GROWTH['v'] = live
        if live:
            chk.observe('C01.modpair: the merged extractor hands over entities that end in a complete after-word (%r -> %r): the '
                        'parser\'s suffix-modifier paths are live and are judged' % shown)
        else:
            chk.observe('C01.modpair: the suffix step of add_mod never hands over an entity ending in a complete after-word (its '
                        'growth is one character short), so match_end(after_regex) cannot succeed on it')
    return _SUFFIX_GROWTH['v']


def _modpair_function(out, idx, mod, cls, fn, src, chk, clsname=None):
    facts = symx.facts_from_index(idx, mod, spans.SPAN_CLASSES)
    facts.conditional_match = True
    for m_ in ('match_begin', 'match_end', 'exact_match'):
        facts.method_types[m_] = 'ConditionalMatch'
    facts.method_types['parse'] = 'ParseResult'
    src_oid = ('var', src)
    s0, l0 = Lin.atom(('fld', src_oid, 'start')), Lin.atom(('fld', src_oid, 'length'))
    seen = {}
    suffix_mods_dead = _check_both_before_after_false(idx) and not _suffix_growth_ends_in_modifier(idx, chk)

    def on_check(w, st, oid, flds, node, why):
        if oid == src_oid or why not in ('escape', 'exit', 'append'):
            return
        if not (set(flds) & {'start', 'length'}):
            return
        snap = [x for x in st.derived.get(oid, ()) if x[0] == src_oid]
        if not snap:
            return
        # paths on which the restoring blocks did not run (value falsy) are not obligations
        names = spans.names_of(st, oid)
        if any(st.tri.get(n + '.value') is not None and 'truthy' not in st.tri.get(n + '.value') for n in names):
            return
        # modifiers found at the END of the entity text (match_is_after) only exist when the extractor attaches suffix
        # modifiers, i.e. when a culture sets CheckBothBeforeAfter; with the flag False everywhere those paths are dead
        if suffix_mods_dead and st.tri.get('match_is_after') == frozenset(['truthy']):
            seen['suffix-paths'] = seen.get('suffix-paths', 0) + 1
            return
        _, cs, cl = snap[0]
        mapping = {('fld', oid, 'start'): cs, ('fld', oid, 'length'): cl}
        fs = _subst(as_lin(w.field(st, oid, 'start')), mapping)
        fl = _subst(as_lin(w.field(st, oid, 'length')), mapping)
        ds, dl = fs - s0, fl - l0
        key = (spans.strip_ids(repr(ds)), spans.strip_ids(repr(dl)))
        seen[key] = seen.get(key, 0) + 1
        if key not in seen or seen[key] == 1:
            seen.setdefault('first:' + repr(key), (getattr(node, 'lineno', fn.lineno), list(st.conds[-6:])))

    overflow, scen = run_walker(fn, facts, on_check, clsname or (cls.name if cls else None), focus=None, always_slice=True)
    q = (clsname or cls.name) + '.parse'
    if seen.get('suffix-paths'):
        out.observe('%s: %d suffix-modifier paths not judged (CheckBothBeforeAfter is False in every culture)' % (q, seen['suffix-paths']))
    paths = sum(v for k, v in seen.items() if isinstance(k, tuple))
    if not paths:
        if clsname is None:
            out.observe('%s: strips its source but no restored result derived from it was found' % q)
        return
    for k, n in sorted((k, v) for k, v in seen.items() if isinstance(k, tuple)):
        ds, dl = k
        line, conds = seen['first:' + repr(k)]
        construct = '%s push/pop pairing' % q
        if ds == '0' and dl == '0':
            out.ok('C01.modpair', mod.path, construct, 'restored span == received span (%d paths)' % n, line)
        else:
            out.bad('C01.modpair', mod.path, construct, 'start %+s, length %+s' % (ds, dl),
                    '%s: after stripping a modifier from the source, parsing the rest and restoring the modifier, the returned '
                    'span differs from the span received: start differs by %s, length by %s (path: %s) - what is cut off the '
                    'source and what is added back to the result no longer agree' % (q, ds, dl, ' & '.join(conds[-4:])), line)
    if scen:
        out.observe('%s: C01.modpair re-analysed in %d scenarios (each regex-match local alone, and the pairs the function handles together)%s'
                    % (q, scen, '; some scenarios still exceed the path budget' if overflow else ''))
    elif overflow:
        out.observe('%s: path budget exceeded in C01.modpair, remaining paths not explored' % q)


# ---------------------------------------------------------------------------------------------------------------
# C01.recode: a parser that works on a re-coded deep copy of its input (traditional -> simplified, full-width -> half-width
# character maps) must give the returned result the ORIGINAL text back: start/length address the query, so text has to be
# the query's own characters (lower-cased), not the re-coded ones.  Must-pass-through on the function's statement list.

RECODE_CONTROL = '''
def parse(self, source):
    simplified = copy.deepcopy(source)
    simplified.text = self.fold(source.text)
    result = self.inner(simplified)
    if result is not None:
        result.text = result.text.lower()
    return result
'''


def recode_sites(fn):
    """[(P, L, [(R, call node)], restore statements {R: [Assign]}, returns {R: [Return]})] for recoded deep copies in fn"""
    params = {a.arg for a in fn.args.args} - {'self', 'cls'}
    copies = {}
    for n in ast.walk(fn):
        if isinstance(n, (ast.Assign, ast.AnnAssign)):
            tgt = n.targets[0] if isinstance(n, ast.Assign) and len(n.targets) == 1 else getattr(n, 'target', None)
            v = n.value
            if isinstance(tgt, ast.Name) and isinstance(v, ast.Call) and v.args and isinstance(v.args[0], ast.Name) \
                    and v.args[0].id in params:
                f = v.func
                nm = f.attr if isinstance(f, ast.Attribute) else f.id if isinstance(f, ast.Name) else ''
                if nm in ('deepcopy', 'copy'):
                    copies[tgt.id] = v.args[0].id
    out = []
    for L, P in copies.items():
        recoded = [n for n in ast.walk(fn) if isinstance(n, ast.Assign) and len(n.targets) == 1
                   and isinstance(n.targets[0], ast.Attribute) and n.targets[0].attr == 'text'
                   and isinstance(n.targets[0].value, ast.Name) and n.targets[0].value.id == L and isinstance(n.value, ast.Call)]
        if not recoded:
            continue
        produced = {}
        for n in ast.walk(fn):
            if isinstance(n, ast.Assign) and len(n.targets) == 1 and isinstance(n.targets[0], ast.Name) \
                    and isinstance(n.value, ast.Call) and any(isinstance(a, ast.Name) and a.id == L for a in n.value.args):
                produced.setdefault(n.targets[0].id, []).append(n)
        returns = {}
        for n in ast.walk(fn):
            if isinstance(n, ast.Return) and isinstance(n.value, ast.Name) and n.value.id in produced:
                returns.setdefault(n.value.id, []).append(n)
        restores = {}
        for n in ast.walk(fn):
            if isinstance(n, ast.Assign) and len(n.targets) == 1 and isinstance(n.targets[0], ast.Attribute) \
                    and n.targets[0].attr == 'text' and isinstance(n.targets[0].value, ast.Name) and n.targets[0].value.id in produced:
                restores.setdefault(n.targets[0].value.id, []).append(n)
        out.append((P, L, produced, restores, returns))
    return out


def recode_verdicts(fn):
    """[(R, ok, detail, line)]"""
    res = []
    for P, L, produced, restores, returns in recode_sites(fn):
        for R, calls in sorted(produced.items()):
            rets = [r for r in returns.get(R, []) if r.lineno > min(c.lineno for c in calls)]
            if not rets:
                continue
            last_call = max(c.lineno for c in calls)
            good = []
            for a in restores.get(R, []):
                names = {x.id for x in ast.walk(a.value) if isinstance(x, ast.Name)}
                from_param = any(isinstance(x, ast.Attribute) and x.attr == 'text' and isinstance(x.value, ast.Name) and x.value.id == P
                                 for x in ast.walk(a.value))
                if from_param and names <= {P, 'str'} and a.lineno > last_call:
                    good.append(a)
            if not good:
                res.append((R, False, 'the result `%s` of parsing the re-coded copy `%s` is returned without its text being set '
                                      'back from %s.text after the last sub-parser call (line %d)' % (R, L, P, last_call),
                            rets[0].lineno))
                continue
            first_good = min(a.lineno for a in good)
            early = [r for r in rets if r.lineno < first_good]
            if early:
                res.append((R, False, '`return %s` at line %d precedes the statement that restores %s.text from %s.text'
                            % (R, early[0].lineno, R, P), early[0].lineno))
                continue
            # the restore must be unconditional up to a None test of R
            par = {}
            for n in ast.walk(fn):
                for ch in ast.iter_child_nodes(n):
                    par[ch] = n
            a = good[0]
            cur, conds = a, []
            while par.get(cur) is not fn and par.get(cur) is not None:
                cur = par[cur]
                if isinstance(cur, (ast.If, ast.While, ast.For, ast.Try)):
                    conds.append(cur)
            bad = [c for c in conds if not (isinstance(c, ast.If) and ast.unparse(c.test) in
                                            ('%s is not None' % R, R, 'not %s is None' % R, '%s != None' % R))]
            if bad:
                res.append((R, False, 'the statement restoring %s.text is conditional on `%s`' % (R, ast.unparse(bad[0].test)
                                                                                                  if isinstance(bad[0], ast.If) else type(bad[0]).__name__),
                            a.lineno))
            else:
                res.append((R, True, '%s.text restored from %s.text at line %d, after the last sub-parser call, before every return'
                            % (R, P, a.lineno), a.lineno))
    return res


def run_recode(chk, idx):
    rid = 'C01.recode'
    chk.rule(rid, 'a result obtained by parsing a re-coded deep copy of the input gets the input\'s own text back before it is '
                  'returned', floor=1, control=True)
    ctl = recode_verdicts(ast.parse(RECODE_CONTROL).body[0])
    chk.control(rid, len(ctl) == 1 and ctl[0][1] is False)
    for mod, cls, fn in lib_functions(idx):
        for R, ok, detail, line in recode_verdicts(fn):
            chk.consulted(mod.path)
            chk.judge(ok, rid, mod.path, qual(cls, fn) + '::' + R, 'restored from the parameter' if ok else 'not restored',
                      qual(cls, fn) + ': ' + detail + ' - start/length address the query but text would show the re-coded characters',
                      line)


# ---------------------------------------------------------------------------------------------------------------
# C01.textpair: a function that rewrites the text of a span object X (cuts a prefix off X.text, leaving X.start / X.length
# on the uncut text), hands X to a sub-parser that copies start/length/text of its argument into its result, and goes
# on to finish that result (writes its text / value fields) must not let the result leave with the callee's own text:
# that text is the cut one, while start/length still cover the uncut entity.  Judged per path with the walker: at
# every checkpoint of a call result whose text is still the callee's, the triple the callee was GIVEN is judged
# with the same coherence relation as C01.span.  The callee's copy contract is read from the callee.

TEXTPAIR_CONTROL = """
class P(Parser):
    def parse(self, source):
        sign = regex.search(self.config.sign_regex, source.text)
        if sign:
            source.text = source.text[len(sign[1]):]
        ret = self.inner(source)
        if ret.value is not None:
            if sign and ret.value != 0:
                ret.text = sign[1] + source.text
            ret.text = ret.text.lower()
        return ret

    def inner(self, er):
        result = ParseResult(er)
        result.value = self.compute(er.text)
        return result
"""


def _call_args(call):
    return list(call.args) + [k.value for k in call.keywords]


def textpair_targets(fn):
    """(objects X with a store X.text = ... that are later an argument of a call bound to a name, those result names)"""
    stores = {n.value.id for n in ast.walk(fn) if isinstance(n, ast.Attribute) and isinstance(n.ctx, ast.Store)
              and n.attr == 'text' and isinstance(n.value, ast.Name) and n.value.id not in ('self', 'cls')}
    objs, results = set(), set()
    for n in ast.walk(fn):
        if isinstance(n, ast.Assign) and isinstance(n.value, ast.Call) and len(n.targets) == 1 and isinstance(n.targets[0], ast.Name):
            hit = {a.id for a in _call_args(n.value) if isinstance(a, ast.Name) and a.id in stores}
            if hit:
                objs |= hit
                results.add(n.targets[0].id)
    return objs, results


def callee_copies_span(find, facts, fname, pos):
    """does the method `fname` (looked up by find) return an object that carries start, length and text of its pos-th argument
    unchanged?  True / False (it sets them itself) / None (callee not readable: not a method of this class, several result names ...)"""
    m = find(fname) if fname else None
    if m is None:
        return None
    params = [a.arg for a in m.args.args]
    if params and params[0] in ('self', 'cls'):
        params = params[1:]
    if pos >= len(params):
        return None
    par = params[pos]
    rets = [n.value for n in ast.walk(m) if isinstance(n, ast.Return) and n.value is not None
            and not (isinstance(n.value, ast.Constant) and n.value.value is None)]
    if not rets or not all(isinstance(r, ast.Name) for r in rets) or len({r.id for r in rets}) != 1:
        return None
    res = rets[0].id
    binds = [n for n in ast.walk(m) if isinstance(n, (ast.Assign, ast.AnnAssign)) and n.value is not None
             and any(isinstance(t, ast.Name) and t.id == res for t in (n.targets if isinstance(n, ast.Assign) else [n.target]))]
    if len(binds) != 1 or not (isinstance(binds[0].value, ast.Call) and isinstance(binds[0].value.func, ast.Name)
                               and binds[0].value.func.id in facts.ctors):
        return None
    ctor = binds[0].value
    copied = set()
    if ctor.args and isinstance(ctor.args[0], ast.Name) and ctor.args[0].id == par:
        copied = {fld for fld, src in facts.ctors[ctor.func.id] if src[0] == 'copyarg' and src[1] == 0 and src[3] == fld}
    top = set(map(id, m.body))
    for n in ast.walk(m):
        if isinstance(n, ast.Attribute) and isinstance(n.ctx, ast.Store) and n.attr in ('start', 'length', 'text') \
                and isinstance(n.value, ast.Name) and n.value.id == par:
            return False            # the callee itself rewrites the span of what it was given
    for n in ast.walk(m):
        tgts = n.targets if isinstance(n, ast.Assign) else [n.target] if isinstance(n, (ast.AugAssign, ast.AnnAssign)) else []
        for t in tgts:
            if isinstance(t, ast.Attribute) and t.attr in ('start', 'length', 'text') and isinstance(t.value, ast.Name) and t.value.id == res:
                v = getattr(n, 'value', None)
                if isinstance(n, ast.Assign) and id(n) in top and isinstance(v, ast.Attribute) and v.attr == t.attr \
                        and isinstance(v.value, ast.Name) and v.value.id == par:
                    copied.add(t.attr)
                else:
                    return False    # the result's span is computed, not copied: no contract to rely on
    return copied >= {'start', 'length', 'text'}


def _textpair_function(out, idx, mod, cls, fn, clsname=None, find=None):
    """-> number of judged (function, callee) instances"""
    fn, _inl = inline_helpers(idx, mod, cls, fn) if cls is not None else (fn, [])
    if find is None:
        def find(name):
            return idx.find_method(cls, name)[1]
    objs, results = textpair_targets(fn)
    if not objs:
        return 0
    facts = facts_for(idx, mod)
    spans.ADJACENT = adjacent_names(fn)
    q = clsname + '.' + fn.name if clsname else qual(cls, fn)
    seen = {}
    unreadable = []
    opaque = set()

    def on_check(w, st, oid, flds, node, why):
        given = st.derived_text.get(oid)
        if not given or why not in ('exit', 'append', 'escape'):
            return
        t = as_str(w.field(st, oid, 'text'))
        names = spans.names_of(st, oid)
        if why == 'exit' and isinstance(node, ast.Return) and not (set(names) & (_names(node.value) if node.value is not None else set())):
            return
        fname, argv = st.calls.get(oid, (None, ()))
        line = getattr(node, 'lineno', fn.lineno)
        for (o3, s3, l3), (_o, t3) in zip(st.derived[oid], given):
            onames = spans.names_of(st, o3)
            if not (set(onames) & objs):
                continue
            key = (fname or '?', ', '.join(onames))
            t3 = as_str(t3)
            if not (t.kind == 'otext' and t.obj == oid):
                # the text was rewritten after the call: C01.span judges what was written
                seen.setdefault(key, ('ok', 'paths that rewrite the result text are judged by C01.span', line, sorted(flds), []))
                continue
            if t3.kind == 'otext' and t3.obj == o3:
                # not rewritten before the call: the triple is the caller's (coherent on entry by the contract)
                seen.setdefault(key, ('ok', 'given as received', line, sorted(flds), []))
                continue
            v = spans.judge_text(w, st, t3, s3, l3, 0, o3)
            pos = [i for i, a in enumerate(argv) if isinstance(a, (symx.ObjRef, symx.Unk)) and symx.as_obj(a).id == o3]
            if v[0] == 'unproven':
                if t3.kind == 'base':
                    # a whole new string (a re-coding call, whatever an earlier callee left there): no cut/affix arithmetic of
                    # this function to judge; whether a re-coded text may leave is C01.recode's / C01.lenpres's question
                    opaque.add((fname or '?', ', '.join(onames)))
                    continue
                unreadable.append('%s:%d %s: the text handed to %s() is not in a form the offset algebra reads (%s)'
                                  % (mod.rel, line, q, fname, _clean(v[1])[:160]))
                continue
            contract = callee_copies_span(find, facts, fname, pos[0]) if pos else None
            if contract is not True:
                seen.setdefault(('nocontract',) + key, line)
                continue
            cur = seen.get(key)
            if cur is None or (cur[0] == 'ok' and v[0] != 'ok'):
                seen[key] = (v[0], _clean(v[1]), line, sorted(flds), list(st.conds[-4:]))

    overflow, scen = run_walker(fn, facts, on_check, clsname or (cls.name if cls else None), focus=objs | results)
    if unreadable:
        raise AnalysisError('; '.join(sorted(set(unreadable))))
    for fname_, src_ in sorted(opaque):
        out.observe('%s: the result of %s(%s) keeps the callee\'s text and %s.text was replaced by a whole new string before the '
                    'call: not a cut, not judged by C01.textpair' % (q, fname_, src_, src_))
    n = 0
    for key, val in sorted(seen.items(), key=lambda kv: str(kv[0])):
        if key[0] == 'nocontract':
            out.observe('%s: result of %s(%s) keeps the callee\'s text after %s.text was rewritten, but the callee is not a plain '
                        'span copier the checker can read: not judged by C01.textpair' % (q, key[1], key[2], key[2]))
            continue
        fname, src = key
        verdict, why_, line, flds, conds = val
        cuts = sorted({n.lineno for n in ast.walk(fn) if isinstance(n, ast.Attribute) and isinstance(n.ctx, ast.Store)
                       and n.attr == 'text' and isinstance(n.value, ast.Name) and n.value.id in src.split(', ')})
        construct = '%s: %s <- %s(%s)' % (q, 'result', fname, src)
        n += 1
        if verdict == 'ok':
            out.ok('C01.textpair', mod.path, construct, 'the triple handed to the callee is coherent on every path that keeps the '
                   'callee\'s text', line)
        else:
            out.bad('C01.textpair', mod.path, construct, 'callee text kept; given: ' + why_,
                    '%s: %s.text is rewritten (line %s) while %s.start/length stay, %s() copies start, length and text of what it is given, and '
                    'on the path [%s] its result leaves with the callee\'s text (fields written afterwards: %s): %s - the text cut off '
                    'before the call is not put back, so text != query[start..end]'
                    % (q, src, ', '.join(map(str, cuts)), src, fname, ' & '.join(conds), ', '.join(flds), why_), line)
    if overflow:
        out.observe('%s: path budget exceeded in C01.textpair, remaining paths not explored' % q)
    return n


class _CountSink:
    def __init__(self):
        self.bad_n = 0
        self.ok_n = 0

    def bad(self, *a, **k):
        self.bad_n += 1

    def ok(self, *a, **k):
        self.ok_n += 1

    def observe(self, *a, **k):
        pass


def run_textpair(chk, idx):
    rid = 'C01.textpair'
    chk.rule(rid, 'a result that leaves with the text its sub-parser copied from a source whose text was cut beforehand: the triple '
                  'handed to the sub-parser is coherent on every such path (a cut prefix is put back wherever it was cut)',
             floor=1, control=True)
    um = idx.mod('recognizers_text.utilities')
    ctl = {n.name: n for n in ast.parse(TEXTPAIR_CONTROL).body[0].body if isinstance(n, ast.FunctionDef)}
    sink = _CountSink()
    _textpair_function(sink, idx, um, None, ctl['parse'], clsname='P', find=ctl.get)
    chk.control(rid, sink.bad_n > 0)
    for mod, cls, fn in lib_functions(idx):
        if fn.name == '__init__' or cls is None:
            continue
        if _textpair_function(chk, idx, mod, cls, fn):
            chk.consulted(mod.path)


_run_before_recode = run


def run(chk):       # noqa: F811
    _run_before_recode(chk)
    run_recode(chk, get_index())
    run_textpair(chk, get_index())
