"""C11 - every resolved date-time value is well formed and agrees with its TIMEX.

Decided (writer/reader agreement and who-produces, on ast normal forms):

  C11.dispatch   for every DateTimeModel registration: each SYS_DATETIME_* type an extractor wired into a
                 default-option slot of the merged extractor can emit (extractor_type_name, explicit type
                 arguments of merge_all_tokens) has a branch in the merged parser's type dispatch AND in
                 _generate_from_resolution ('set' is exempt there by table: the Specs define it as 'not resolved').
  C11.keys       per parser class (11 base + 11 Chinese today): the keys written into future_resolution and
                 past_resolution are exactly the keys _generate_from_resolution reads for that parser's type.
  C11.producer   every value stored under a date / time / datetime key is DateTimeFormatUtil.format_date /
                 format_time / format_date_time of something (durations: str(...)).
  C11.templates  those formatters' f-string templates are {year:04d}-{month:02d}-{day:02d}, {hour:02d}:{minute:02d}:
                 {second:02d} and date + ' ' + time; the min-value markers the merger filters on equal what format_date
                 yields for DateUtils.min_value; luis_date / luis_time use the same paddings.
  C11.min-guard  the min-value / invalid-date filter precedes every emission of a value in
                 __add_single_date_time_to_resolution and of the unmodified start/end pair in __add_period_to_resolution.
  C11.type-flow  type_name and the inner `type` come from _determine_date_time_types applied to the same parser type with
                 the same modifier flags, and the resolution is built before slot.type is overwritten.
  C11.pm-range   the hour arithmetic of to_pm, which _resolve_ampm applies to already-resolved values, maps every
                 hour 0..23 into 0..23.
  C11.sentinel-guard  every date constructor that takes month and day (but not the year) from one date object, and every
                 .replace(year/month/day=..) on a local that may hold a safe_create* result, is dominated by a validity
                 test of that object (is_valid_datetime, ==/!= min_value, or an ordering that only a real date satisfies).
  C11.timex-value  same tabulation (c07.compose_table): the hour / minute / second in the composed TIMEX are those of the emitted
                 value, with exactly the fields the time entity's own TIMEX had.
  C11.range-order in a date-range parser that merges two parsed dates, the statements adjusting (future/past, begin/end)
                 are interpreted on every position of two year-less endpoints and the reference in a small model year:
                 begin <= end must hold afterwards in both resolutions.
"""
import ast

from ..core import AnalysisError, rel
from ..index import get_index
from .c07 import NOVAL, make_evalc, own_walk, parents_of, parser_type_of, pkg_mods, to_pm_table

LEVEL = 'other'
DESIGN_REF = 'DESIGN.md#c11'
META = {
    'text': 'C11 (partial): type dispatch is exhaustive over the types the wired extractors emit; each parser writes exactly '
            'the resolution keys the merger reads for its type; values under date/time/datetime keys come only from the '
            'zero-padded DateTimeFormatUtil formatters; the min-value filter precedes emission; type_name and inner type '
            'come from the same _determine_date_time_types arguments; to_pm stays within 0..23',
    'note': 'Not decided: value relations beyond the ordering of year-less date ranges decided by C11.range-order (a definite '
            'TIMEX equals its value, start < end for other range parsers; calendar validity of a formatted '
            'datetime object is guaranteed by datetime itself), raw datetime(...) constructions from match groups (a ValueError there '
            'is swallowed by Model.parse and loses the entities instead of yielding "not resolved"), options other than NONE '
            '(time-zone and alternative extractors are option-gated and exempt).',
    'technique': 'class-hierarchy resolution of extractor/parser slots through the source index, evaluation of Constants.* / '
                 'TimeTypeConstants.* to strings, set comparison of written vs read keys, callee identity of stored values, '
                 'f-string template normal forms, dominance of guard statements inside one function, argument dataflow',
}

PKG = 'recognizers_date_time.date_time'
DATE_KEYS = {'date': 'format_date', 'startDate': 'format_date', 'endDate': 'format_date',
             'time': 'format_time', 'startTime': 'format_time', 'endTime': 'format_time',
             'dateTime': 'format_date_time', 'startDateTime': 'format_date_time', 'endDateTime': 'format_date_time'}
EXEMPT_TYPES = {'set': "the Specs define the value of a 'set' entity as 'not resolved' on every platform "
                       "(triaged: 'every day' -> P1D, not resolved)"}


def callee_name(call):
    f = call.func
    if isinstance(f, ast.Attribute):
        return f.attr
    if isinstance(f, ast.Name):
        return f.id
    return None


def in_pkg(c):
    return c.mod.name == PKG or c.mod.name.startswith(PKG + '.')


# ---------------------------------------------------------------------------------------------------
# C11.dispatch

def registrations(idx):
    """[(mod, call, parser ctor call, extractor ctor call)] for DateTimeModel(parser, extractor)"""
    out = []
    for mod in pkg_mods(idx):
        for n in ast.walk(mod.tree):
            if isinstance(n, ast.Call) and callee_name(n) == 'DateTimeModel' and len(n.args) == 2 \
                    and all(isinstance(a, ast.Call) for a in n.args):
                out.append((mod, n, n.args[0], n.args[1]))
    return out


def extractor_config_class(idx, mod, ecall):
    ecls = idx.resolve_class(mod, ecall.func)
    if ecls is None:
        raise AnalysisError('%s:%d cannot resolve extractor class %s' % (rel(mod.path), ecall.lineno, ast.unparse(ecall.func)))
    if ecall.args and isinstance(ecall.args[0], ast.Call):
        cfg = idx.resolve_class(mod, ecall.args[0].func)
        if cfg is not None:
            return ecls, cfg
    init = ecls.methods.get('__init__')
    if init is not None:
        for n in ast.walk(init):
            if isinstance(n, ast.Call) and isinstance(n.func, ast.Attribute) and n.func.attr == '__init__' and n.args \
                    and isinstance(n.args[0], ast.Call):
                cfg = idx.resolve_class(ecls.mod, n.args[0].func)
                if cfg is not None:
                    return ecls, cfg
    raise AnalysisError('%s:%d cannot find the configuration class of %s' % (rel(mod.path), ecall.lineno, ecls.name))


def wired_slots(idx, ecls):
    """slots `self.config.<slot>.extract(...)` in extract(); -> {slot: gated(bool)}"""
    k, fn = idx.find_method(ecls, 'extract')
    if fn is None:
        raise AnalysisError('anchor vanished: %s.extract' % ecls.name)
    par = parents_of(fn)
    slots = {}

    def is_gated(n):
        cur = n
        while cur in par:
            p = par[cur]
            if isinstance(p, ast.If) and any(cur is s for s in p.body):
                for t in ast.walk(p.test):
                    if isinstance(t, ast.Attribute) and isinstance(t.value, ast.Name) and t.value.id == 'DateTimeOptions' \
                            and t.attr != 'NONE':
                        return True
            cur = p
        return False

    def config_slot_of(e):
        if isinstance(e, ast.Attribute) and isinstance(e.value, ast.Attribute) and e.value.attr == 'config':
            return e.attr
        return None

    # locals bound exactly once (candidates for a tuple / list of sub-extractors)
    binds = {}
    for n in ast.walk(fn):
        if isinstance(n, ast.Assign):
            for t in n.targets:
                if isinstance(t, ast.Name):
                    binds.setdefault(t.id, []).append(n.value)
    loop_vars = {}      # loop variable -> (For node, [slots])
    for n in ast.walk(fn):
        if isinstance(n, ast.For) and isinstance(n.target, ast.Name):
            it = n.iter
            if isinstance(it, ast.Name) and len(binds.get(it.id, [])) == 1:
                it = binds[it.id][0]
            uses = [c for c in ast.walk(n) if isinstance(c, ast.Call) and isinstance(c.func, ast.Attribute) and c.func.attr == 'extract'
                    and isinstance(c.func.value, ast.Name) and c.func.value.id == n.target.id]
            if not uses:
                continue
            if not isinstance(it, (ast.Tuple, ast.List)) or not all(config_slot_of(e) for e in it.elts):
                raise AnalysisError('%s.extract: sub-extractors are called in a loop over `%s`, which cannot be enumerated as a '
                                    'tuple / list of self.config.<slot> references' % (k.name, ast.unparse(n.iter)[:60]))
            loop_vars[n.target.id] = (n, [config_slot_of(e) for e in it.elts], uses)
    for n in ast.walk(fn):
        if isinstance(n, ast.Call) and isinstance(n.func, ast.Attribute) and n.func.attr == 'extract':
            r = n.func.value
            sl = config_slot_of(r)
            if sl:
                slots[sl] = slots.get(sl, True) and is_gated(n)
            elif isinstance(r, ast.Name) and r.id in loop_vars and any(n is u for u in loop_vars[r.id][2]):
                for sl in loop_vars[r.id][1]:
                    slots[sl] = slots.get(sl, True) and is_gated(n)
    return k, fn, slots


def slot_classes(idx, cfg, slot):
    """classes assigned to self._<slot> / self.<slot> anywhere in the configuration class hierarchy"""
    out, none = [], False
    for k in idx.mro(cfg):
        for fn in k.methods.values():
            for n in ast.walk(fn):
                if isinstance(n, ast.Assign):
                    for t in n.targets:
                        if isinstance(t, ast.Attribute) and isinstance(t.value, ast.Name) and t.value.id == 'self' \
                                and t.attr in ('_' + slot, slot):
                            if isinstance(n.value, ast.Call):
                                c = idx.resolve_class(k.mod, n.value.func)
                                if c is None:
                                    raise AnalysisError('%s:%d cannot resolve class of slot %s' % (rel(k.mod.path), n.lineno, slot))
                                out.append(c)
                            elif isinstance(n.value, ast.Constant) and n.value.value is None:
                                none = True
                            else:
                                raise AnalysisError('%s:%d slot %s assigned from an expression the rule does not understand'
                                                    % (rel(k.mod.path), n.lineno, slot))
        if out or none:
            break
    return out


def emitted_types(idx, c):
    """type names an extractor class can put on its results"""
    evf = lambda k: make_evalc(idx, k.mod, k)
    types = {}
    k, f = idx.find_method(c, 'extractor_type_name')
    if f is None:
        raise AnalysisError('%s has no extractor_type_name' % c.qual)
    rets = [n for n in ast.walk(f) if isinstance(n, ast.Return) and n.value is not None]
    for r in rets:
        v = evf(k)(r.value)
        if isinstance(v, str):
            types[v] = '%s.extractor_type_name' % k.name
        else:
            raise AnalysisError('%s.extractor_type_name returns %s: not a constant the rule can evaluate'
                                % (k.name, ast.unparse(r.value)))
    for kk in idx.mro(c):
        if not in_pkg(kk):
            continue
        for name, fn in kk.methods.items():
            for n in ast.walk(fn):
                if isinstance(n, ast.Call) and callee_name(n) == 'merge_all_tokens' and len(n.args) >= 3:
                    a = n.args[2]
                    if isinstance(a, ast.Attribute) and a.attr == 'extractor_type_name':
                        continue
                    v = evf(kk)(a)
                    if isinstance(v, str):
                        types[v] = '%s.%s merge_all_tokens' % (kk.name, name)
                    else:
                        raise AnalysisError('%s.%s: merge_all_tokens type argument %s not evaluable' % (kk.name, name, ast.unparse(a)))
    return types


def type_chain(fn, ev):
    """{type: node} for `<x>.type == CONST` branches whose body calls some `.parse(`"""
    out = {}
    for n in ast.walk(fn):
        if isinstance(n, ast.If) and isinstance(n.test, ast.Compare) and len(n.test.ops) == 1 and isinstance(n.test.ops[0], ast.Eq):
            a, b = n.test.left, n.test.comparators[0]
            for x, y in ((a, b), (b, a)):
                if (isinstance(x, ast.Attribute) and x.attr == 'type') or isinstance(x, ast.Name):
                    v = ev(y)
                    if isinstance(v, str) and any(isinstance(c, ast.Call) and callee_name(c) == 'parse'
                                                  for s in n.body for c in ast.walk(s)):
                        out.setdefault(v, n)
    return out


def parser_dispatch(idx, pcls):
    """type dispatch reached from pcls.parse: in parse itself or in a self.<m>() it calls"""
    k, fn = idx.find_method(pcls, 'parse')
    if fn is None:
        raise AnalysisError('anchor vanished: %s.parse' % pcls.name)
    best = (type_chain(fn, make_evalc(idx, k.mod, k)), k, fn)
    for n in ast.walk(fn):
        if isinstance(n, ast.Call) and isinstance(n.func, ast.Attribute) and isinstance(n.func.value, ast.Name) \
                and n.func.value.id == 'self':
            k2, f2 = idx.find_method(pcls, n.func.attr)
            if f2 is not None:
                ch = type_chain(f2, make_evalc(idx, k2.mod, k2))
                if len(ch) > len(best[0]):
                    best = (ch, k2, f2)
    if len(best[0]) < 3:
        raise AnalysisError('%s: type dispatch (`source.type == ...: <parser>.parse(...)`) not found from parse()' % pcls.name)
    return best


def generate_branches(idx, pcls):
    """{type: keys read} from _generate_from_resolution of pcls"""
    k, fn = idx.find_method(pcls, '_generate_from_resolution')
    if fn is None:
        raise AnalysisError('anchor vanished: %s._generate_from_resolution' % pcls.name)
    ev = make_evalc(idx, k.mod, k)
    params = [a.arg for a in fn.args.args]
    if len(params) < 3:
        raise AnalysisError('%s._generate_from_resolution: unexpected signature' % k.name)
    tparam, rparam = params[1], params[2]

    def helper_key_params(name):
        """indices of the helper's parameters used as key into its first non-self parameter"""
        hk, hf = None, None
        for kk in idx.mro(pcls):
            if name in kk.methods:
                hk, hf = kk, kk.methods[name]
                break
        if hf is None:
            raise AnalysisError('%s: helper %s not found' % (k.name, name))
        hp = [a.arg for a in hf.args.args]
        res = hp[1]
        idxs = []
        for n in ast.walk(hf):
            key = None
            if isinstance(n, ast.Subscript) and isinstance(n.value, ast.Name) and n.value.id == res:
                key = n.slice
            elif isinstance(n, ast.Call) and isinstance(n.func, ast.Attribute) and n.func.attr == 'get' \
                    and isinstance(n.func.value, ast.Name) and n.func.value.id == res and n.args:
                key = n.args[0]
            if isinstance(key, ast.Name) and key.id in hp:
                idxs.append(hp.index(key.id) - 1)    # call-site index (self dropped)
        return sorted(set(idxs))

    out = {}
    for n in ast.walk(fn):
        if isinstance(n, ast.If) and isinstance(n.test, ast.Compare) and len(n.test.ops) == 1 and isinstance(n.test.ops[0], ast.Eq):
            a, b = n.test.left, n.test.comparators[0]
            t = None
            for x, y in ((a, b), (b, a)):
                if isinstance(x, ast.Name) and x.id == tparam and isinstance(ev(y), str):
                    t = ev(y)
            if t is None:
                continue
            keys = set()
            for s in n.body:
                for c in ast.walk(s):
                    if isinstance(c, ast.Call) and isinstance(c.func, ast.Attribute) and isinstance(c.func.value, ast.Name) \
                            and c.func.value.id == 'self' and c.args and isinstance(c.args[0], ast.Name) and c.args[0].id == rparam:
                        for i in helper_key_params(c.func.attr):
                            v = ev(c.args[i]) if i < len(c.args) else NOVAL
                            if not isinstance(v, str):
                                raise AnalysisError('%s._generate_from_resolution[%s]: key argument not evaluable' % (k.name, t))
                            keys.add(v)
                    if isinstance(c, ast.Subscript) and isinstance(c.value, ast.Name) and c.value.id == rparam:
                        v = ev(c.slice)
                        if isinstance(v, str):
                            keys.add(v)
            out.setdefault(t, set()).update(keys)
    if len(out) < 3:
        raise AnalysisError('%s._generate_from_resolution: type branches not recognised' % k.name)
    return k, fn, out


def rule_dispatch(chk, idx):
    rid = 'C11.dispatch'
    chk.rule(rid, 'every type a wired extractor can emit has a branch in the merged parser dispatch and in '
                  '_generate_from_resolution', floor=30)
    regs = registrations(idx)
    if len(regs) < 5:
        raise AnalysisError('only %d DateTimeModel(parser, extractor) registrations found' % len(regs))
    done = set()
    gated_seen = set()
    for mod, call, pcall, ecall in regs:
        pcls = idx.resolve_class(mod, pcall.func)
        if pcls is None:
            raise AnalysisError('%s:%d cannot resolve parser class' % (rel(mod.path), call.lineno))
        ecls, cfg = extractor_config_class(idx, mod, ecall)
        if (pcls, ecls, cfg) in done:
            continue
        done.add((pcls, ecls, cfg))
        chk.consulted(cfg.mod.path)
        ek, efn, slots = wired_slots(idx, ecls)
        if len(slots) < 6:
            raise AnalysisError('%s.extract: only %d extractor slots recognised' % (ek.name, len(slots)))
        types = {}
        for slot, gated in sorted(slots.items()):
            if gated:
                if (ek, slot) in gated_seen:
                    continue
                gated_seen.add((ek, slot))
                chk.exempt(rid, ek.mod.path, '%s.extract[%s]' % (ek.name, slot),
                           'slot only used under a non-default DateTimeOptions flag; the property is stated for default options',
                           'option-gated slot ' + slot)
                continue
            classes = slot_classes(idx, cfg, slot)
            if not classes:
                chk.bad(rid, cfg.mod.path, 'DateTimeModel(%s, %s(%s))[%s]' % (pcls.name, ecls.name, cfg.name, slot),
                        'slot wired under default options but never assigned an extractor',
                        '%s.extract calls self.config.%s.extract(...) under default options, but %s leaves that slot without an '
                        'extractor: the call raises for every query and the model returns no entity' % (ek.name, slot, cfg.name),
                        efn.lineno)
                continue
            for c in classes:
                for t, why in emitted_types(idx, c).items():
                    types.setdefault(t, '%s via %s (%s)' % (c.name, slot, why))
        for kk in idx.mro(ecls):
            if in_pkg(kk):
                for name, fn in kk.methods.items():
                    for n in ast.walk(fn):
                        if isinstance(n, ast.Call) and callee_name(n) == 'merge_all_tokens' and len(n.args) >= 3:
                            v = make_evalc(idx, kk.mod, kk)(n.args[2])
                            if isinstance(v, str):
                                types.setdefault(v, '%s.%s merge_all_tokens' % (kk.name, name))
        chain, dk, dfn = parser_dispatch(idx, pcls)
        gk, gfn, gen = generate_branches(idx, pcls)
        chk.consulted(dk.mod.path)
        chk.consulted(gk.mod.path)
        for t, why in sorted(types.items()):
            construct = 'DateTimeModel(%s, %s(%s))[%s]' % (pcls.name, ecls.name, cfg.name, t)
            chk.judge(t in chain, rid, dk.mod.path, construct + '#parse', 'type %r emitted by %s; dispatch %s.%s has %s'
                      % (t, why, dk.name, dfn.name, sorted(chain)),
                      'extractors can emit type %r (%s) but %s.%s has no branch for it: the entity is dropped' % (t, why, dk.name, dfn.name),
                      dfn.lineno)
            if t in EXEMPT_TYPES and t not in gen:
                chk.exempt(rid, gk.mod.path, construct + '#resolution', EXEMPT_TYPES[t], 'type %r has no resolution branch' % t)
            else:
                chk.judge(t in gen, rid, gk.mod.path, construct + '#resolution',
                          'type %r; %s._generate_from_resolution has %s' % (t, gk.name, sorted(gen)),
                          'extractors can emit type %r (%s) but _generate_from_resolution has no branch for it: every such '
                          'entity resolves to "not resolved"' % (t, why), gfn.lineno)
    return done


# ---------------------------------------------------------------------------------------------------
# C11.keys / C11.producer

def dict_returning_helper(idx, mod, cls, call):
    """the dict literal a call stands for when the callee - a method of the same class hierarchy (self.m / Class.m) or a
    module-level function - consists of a single `return {<literal>}`; parameters are substituted by the call's arguments"""
    f = call.func
    target = None
    if isinstance(f, ast.Attribute) and isinstance(f.value, ast.Name) and cls is not None:
        if f.value.id in ('self', 'cls'):
            _, target = idx.find_method(cls, f.attr)
        else:
            c2 = idx.resolve_class(mod, f.value)
            if c2 is not None:
                _, target = idx.find_method(c2, f.attr)
    elif isinstance(f, ast.Name):
        r = idx.resolve(mod, f.id)
        if r and r[0] == 'func':
            target = r[2]
    if target is None:
        return None
    body = [st for st in target.body if not (isinstance(st, ast.Expr) and isinstance(st.value, ast.Constant))]
    if len(body) != 1 or not isinstance(body[0], ast.Return) or not isinstance(body[0].value, ast.Dict):
        return None
    params = [a.arg for a in target.args.args if a.arg not in ('self', 'cls')]
    if call.keywords or len(call.args) != len(params):
        return None
    subst = dict(zip(params, call.args))

    class Sub(ast.NodeTransformer):
        def visit_Name(self, n):
            return subst.get(n.id, n) if isinstance(n.ctx, ast.Load) else n

    import copy
    return ast.fix_missing_locations(Sub().visit(copy.deepcopy(body[0].value)))


def resolution_writes(fn, ev, inline=None):
    """[(which, key, value node, line)] for writes into <x>.future_resolution / <x>.past_resolution"""
    out = []
    for n in own_walk(fn):
        if isinstance(n, ast.Assign):
            for t in n.targets:
                if isinstance(t, ast.Subscript) and isinstance(t.value, ast.Attribute) \
                        and t.value.attr in ('future_resolution', 'past_resolution'):
                    out.append((t.value.attr.split('_')[0], ev(t.slice), n.value, n.lineno, t.slice))
                elif isinstance(t, ast.Attribute) and t.attr in ('future_resolution', 'past_resolution'):
                    v = n.value
                    if isinstance(v, ast.Call) and inline is not None:
                        lit = inline(v)
                        if lit is not None:
                            v = lit
                    if isinstance(v, ast.Dict):
                        for kx, vx in zip(v.keys, v.values):
                            out.append((t.attr.split('_')[0], ev(kx) if kx is not None else NOVAL, vx, n.lineno, kx))
                    elif isinstance(v, ast.Call) and callee_name(v) == 'dict' and not v.args and not v.keywords:
                        pass
                    else:
                        out.append((t.attr.split('_')[0], NOVAL, v, n.lineno, None))
        elif isinstance(n, ast.Call) and isinstance(n.func, ast.Attribute) and n.func.attr in ('update', 'setdefault') \
                and isinstance(n.func.value, ast.Attribute) and n.func.value.attr in ('future_resolution', 'past_resolution'):
            out.append((n.func.value.attr.split('_')[0], NOVAL, n, n.lineno, None))
    return out


def producer_of(idx, mod, v):
    """normal form of the producer of a stored value"""
    if isinstance(v, ast.Call):
        f = v.func
        if isinstance(f, ast.Attribute) and isinstance(f.value, ast.Name):
            c = idx.resolve_class(mod, f.value)
            if c is not None:
                return '%s.%s' % (c.name, f.attr)
            return '%s.%s' % (f.value.id, f.attr)
        if isinstance(f, ast.Name):
            return f.id
        return ast.unparse(f)
    return type(v).__name__


def rule_keys(chk, idx, merged_parsers):
    rk, rp = 'C11.keys', 'C11.producer'
    chk.rule(rk, 'keys written into future_resolution / past_resolution = keys _generate_from_resolution reads for the parser type',
             floor=30, control=True)
    chk.rule(rp, 'values under date/time/datetime keys are produced by the matching DateTimeFormatUtil formatter', floor=40,
             control=True)
    ctl = ast.parse("def parse(self, s):\n    r.future_resolution[TimeTypeConstants.DATE] = str(r.future_value)\n"
                    "    r.past_resolution = {TimeTypeConstants.DATETIME: DateTimeFormatUtil.format_date_time(r.past_value)}\n").body[0]
    cmod = idx.mod(PKG + '.base_date')
    w = resolution_writes(ctl, make_evalc(idx, cmod))
    chk.control(rk, sorted((x[0], x[1]) for x in w) == [('future', 'date'), ('past', 'dateTime')])
    chk.control(rp, sorted(producer_of(idx, cmod, x[2]) for x in w) == ['DateTimeFormatUtil.format_date_time', 'str'])

    # reader side: union over the merged parser classes in use (they share BaseMergedParser._generate_from_resolution today)
    readers = {}
    for pcls in merged_parsers:
        gk, gfn, gen = generate_branches(idx, pcls)
        readers[gk] = gen
    nclasses = 0
    for mod in pkg_mods(idx):
        for cls in mod.classes.values():
            writes = []
            for name, fn in cls.methods.items():
                ev = make_evalc(idx, mod, cls)
                for wr in resolution_writes(fn, ev, lambda call, _m=mod, _c=cls: dict_returning_helper(idx, _m, _c, call)):
                    writes.append((name,) + wr)
            if not writes:
                continue
            if any(cls in idx.mro(p) for p in merged_parsers) or cls.name == 'TimexUtil':
                continue    # the merger itself / double-timex post-processing do not produce parser resolutions
            t = parser_type_of(idx, cls, lambda k: make_evalc(idx, k.mod, k))
            if t is None:
                raise AnalysisError('%s writes resolution keys but its parser_type_name cannot be evaluated' % cls.qual)
            nclasses += 1
            chk.consulted(mod.path)
            for which in ('future', 'past'):
                keys = set()
                for name, wh, key, v, line, knode in writes:
                    if wh != which:
                        continue
                    if not isinstance(key, str):
                        raise AnalysisError('%s:%d %s.%s: resolution write with a key the rule cannot evaluate'
                                            % (rel(mod.path), line, cls.name, name))
                    keys.add(key)
                line = min(w_[4] for w_ in writes)
                for gk, gen in readers.items():
                    construct = '%s -> %s._generate_from_resolution[%s].%s' % (cls.name, gk.name, t, which)
                    if t not in gen:
                        if t in EXEMPT_TYPES:
                            chk.exempt(rk, mod.path, construct, EXEMPT_TYPES[t], 'writes %s, no reader' % sorted(keys), line)
                        else:
                            chk.bad(rk, mod.path, construct, 'writes %s, no reader branch for type %r' % (sorted(keys), t),
                                    'parser type %r has no branch in _generate_from_resolution' % t, line)
                        continue
                    want = gen[t]
                    chk.judge(keys == want, rk, mod.path, construct, 'written=%s read=%s' % (sorted(keys), sorted(want)),
                              '%s writes %s_resolution keys %s but the merger reads %s for type %r: missing %s, unread %s'
                              % (cls.name, which, sorted(keys), sorted(want), t, sorted(want - keys), sorted(keys - want)), line)
            # who produces
            counts = {}
            for name, wh, key, v, line, knode in writes:
                prod = producer_of(idx, mod, v)
                detail = '%s[%s] <- %s' % (wh, key, prod)
                counts[detail] = counts.get(detail, 0) + 1
                if counts[detail] > 1:
                    detail += ' (#%d)' % counts[detail]
                construct = '%s.%s' % (cls.name, name)
                if key in DATE_KEYS:
                    want = 'DateTimeFormatUtil.' + DATE_KEYS[key]
                    chk.judge(prod == want, rp, mod.path, construct, detail,
                              'the value stored under %r is produced by %s, not by %s: its shape is not guaranteed'
                              % (key, prod, want), line)
                elif key == 'duration':
                    chk.judge(prod == 'str', rp, mod.path, construct, detail,
                              'the duration value is produced by %s, not str(<seconds>)' % prod, line)
                elif t in EXEMPT_TYPES:
                    chk.exempt(rp, mod.path, construct, EXEMPT_TYPES[t], detail, line)
                else:
                    chk.bad(rp, mod.path, construct, detail, 'value stored under a key %r the rule has no producer for' % key, line)
    if nclasses < 15:
        raise AnalysisError('only %d parser classes with resolution writes found' % nclasses)
    chk.extra['parser_classes_with_resolution_writes'] = nclasses


# ---------------------------------------------------------------------------------------------------
# C11.templates

def _merge_lits(parts):
    out = []
    for p_ in parts:
        if p_[0] == 'lit' and out and out[-1][0] == 'lit':
            out[-1] = ('lit', out[-1][1] + p_[1])
        elif not (p_[0] == 'lit' and p_[1] == ''):
            out.append(p_)
    return out


def template_nf(node, params, ev=None, locals_=None, depth=0):
    """f-string / concatenation -> list of ('lit', text) | ('fld', '<p>.attr' or name, spec) | ('call', name, args).
    Constants (Constants.X, class attributes of the owner, module names) are evaluated through `ev`; a local bound exactly
    once to an expression (`locals_`) is replaced by that expression before normalising."""
    locals_ = locals_ or {}
    if depth > 6:
        return [('expr', ast.unparse(node), '')]
    if isinstance(node, ast.Constant) and isinstance(node.value, str):
        return [('lit', node.value)]
    if isinstance(node, ast.Name) and node.id in locals_ and node.id not in params:
        return template_nf(locals_[node.id], params, ev, locals_, depth + 1)
    if ev is not None and isinstance(node, (ast.Attribute, ast.Name)) and not (isinstance(node, ast.Name) and node.id in params):
        v = ev(node)
        if isinstance(v, str):
            return [('lit', v)]
    if isinstance(node, ast.JoinedStr):
        out = []
        for v in node.values:
            if isinstance(v, ast.Constant):
                out.append(('lit', v.value))
            else:
                spec = ''.join(p.value for p in v.format_spec.values if isinstance(p, ast.Constant)) if v.format_spec else ''
                val = v.value
                if isinstance(val, ast.Attribute) and isinstance(val.value, ast.Name) and val.value.id in params:
                    out.append(('fld', val.attr, spec))
                elif isinstance(val, ast.Name) and val.id in params:
                    out.append(('fld', 'arg%d' % params.index(val.id), spec))
                elif spec == '' and v.conversion == -1 and (
                        (isinstance(val, ast.Name) and val.id in locals_) or isinstance(val, (ast.Call, ast.BinOp, ast.JoinedStr))
                        or (ev is not None and isinstance(ev(val), str))):
                    out.extend(template_nf(val, params, ev, locals_, depth + 1))      # str(x) of a string expression is x
                elif isinstance(val, ast.Attribute) and isinstance(val.value, ast.Name) and val.value.id == 'Constants':
                    out.append(('const', val.attr, spec))
                else:
                    out.append(('expr', ast.unparse(val), spec))
        return _merge_lits(out)
    if isinstance(node, ast.BinOp) and isinstance(node.op, ast.Add):
        return _merge_lits(template_nf(node.left, params, ev, locals_, depth + 1) + template_nf(node.right, params, ev, locals_, depth + 1))
    if isinstance(node, ast.Call):
        args = []
        for a_ in node.args:
            args.append('arg%d' % params.index(a_.id) if isinstance(a_, ast.Name) and a_.id in params else ast.unparse(a_))
        return [('call', callee_name(node), tuple(args))]
    return [('expr', ast.unparse(node), '')]


def returns_nf(fn, ev=None):
    params = [a.arg for a in fn.args.args if a.arg not in ('self', 'cls')]
    binds = {}
    for n in ast.walk(fn):
        if isinstance(n, (ast.Assign, ast.AnnAssign, ast.AugAssign)):
            for t in (n.targets if isinstance(n, ast.Assign) else [n.target]):
                if isinstance(t, ast.Name):
                    binds.setdefault(t.id, []).append(n)
    single = {k: v[0].value for k, v in binds.items()
              if len(v) == 1 and isinstance(v[0], (ast.Assign, ast.AnnAssign)) and v[0].value is not None and k not in params}
    return [template_nf(r.value, params, ev, single) for r in ast.walk(fn) if isinstance(r, ast.Return) and r.value is not None]


def render(nf, fields):
    out = ''
    for p in nf:
        if p[0] == 'lit':
            out += p[1]
        elif p[0] == 'fld':
            out += format(fields[p[1]], p[2])
        else:
            raise ValueError
    return out


WANT_TEMPLATES = {
    'format_date': [[('fld', 'year', '04d'), ('lit', '-'), ('fld', 'month', '02d'), ('lit', '-'), ('fld', 'day', '02d')]],
    'format_time': [[('fld', 'hour', '02d'), ('lit', ':'), ('fld', 'minute', '02d'), ('lit', ':'), ('fld', 'second', '02d')]],
    'format_date_time': [[('call', 'format_date', ('arg0',)), ('lit', ' '), ('call', 'format_time', ('arg0',))]],
    'luis_date': [[('lit', 'XXXX-XX-'), ('fld', 'arg2', '02d')],
                  [('lit', 'XXXX-'), ('fld', 'arg1', '02d'), ('lit', '-'), ('fld', 'arg2', '02d')],
                  [('fld', 'arg0', '04d'), ('lit', '-'), ('fld', 'arg1', '02d'), ('lit', '-'), ('fld', 'arg2', '02d')]],
    'luis_time': [[('fld', 'arg0', '02d'), ('lit', ':'), ('fld', 'arg1', '02d')],
                  [('fld', 'arg0', '02d'), ('lit', ':'), ('fld', 'arg1', '02d'), ('lit', ':'), ('fld', 'arg2', '02d')]],
}


def rule_templates(chk, idx):
    rid = 'C11.templates'
    chk.rule(rid, 'formatter templates are zero padded (YYYY-MM-DD, HH:MM:SS, date + space + time) and the min-value markers '
                  'equal format_date(DateUtils.min_value)', floor=7)
    util = idx.cls(PKG + '.utilities.DateTimeFormatUtil')
    chk.consulted(util.mod.path)
    uev = make_evalc(idx, util.mod, util)
    for name, want in sorted(WANT_TEMPLATES.items()):
        if name not in util.methods:
            raise AnalysisError('anchor vanished: DateTimeFormatUtil.%s' % name)
        got = returns_nf(util.methods[name], uev)
        ok = sorted(map(repr, got)) == sorted(map(repr, want))
        chk.judge(ok, rid, util.mod.path, 'DateTimeFormatUtil.' + name, 'templates=%s' % sorted(map(show_nf, got)),
                  '%s no longer has the template(s) %s (found %s)' % (name, sorted(map(show_nf, want)), sorted(map(show_nf, got))),
                  util.methods[name].lineno)
    # min-value markers
    du = idx.cls(PKG + '.utilities.DateUtils')
    mv = du.attrs.get('min_value')
    if not (isinstance(mv, ast.Call) and callee_name(mv) == 'datetime' and len(mv.args) >= 3
            and all(isinstance(a, ast.Constant) for a in mv.args)):
        raise AnalysisError('DateUtils.min_value is not a datetime(...) literal')
    vals = [a.value for a in mv.args] + [0] * 7
    fields = dict(zip(('year', 'month', 'day', 'hour', 'minute', 'second'), vals))
    try:
        rendered = render(returns_nf(util.methods['format_date'], uev)[0], fields)
    except (ValueError, KeyError, IndexError):
        rendered = None
    consts = idx.cls(PKG + '.constants.Constants')
    inv = consts.attrs.get('INVALID_DATE_STRING')
    inv = inv.value if isinstance(inv, ast.Constant) else None
    chk.judge(rendered is not None and rendered == inv, rid, consts.mod.path, 'Constants.INVALID_DATE_STRING',
              'INVALID_DATE_STRING=%r format_date(min_value)=%r' % (inv, rendered),
              'Constants.INVALID_DATE_STRING (%r) is not what format_date yields for DateUtils.min_value (%r): the invalid-date '
              'filter of __add_period_to_resolution would not match' % (inv, rendered))
    bm = idx.cls(PKG + '.base_merged.BaseMergedParser')
    init = bm.methods.get('__init__')
    if init is None:
        raise AnalysisError('anchor vanished: BaseMergedParser.__init__')
    found = False
    for n in ast.walk(init):
        if isinstance(n, ast.Assign) and any(isinstance(t, ast.Attribute) and t.attr.endswith('date_min_value') and
                                             'time' not in t.attr for t in n.targets):
            found = True
            v = n.value
            ok = isinstance(v, ast.Call) and callee_name(v) == 'format_date' and len(v.args) == 1 \
                and isinstance(v.args[0], ast.Attribute) and v.args[0].attr == 'min_value'
            chk.judge(ok, rid, bm.mod.path, 'BaseMergedParser.__date_min_value', 'min marker <- %s' % ast.unparse(v),
                      'the min-value marker is %s, not DateTimeFormatUtil.format_date(DateUtils.min_value)' % ast.unparse(v), n.lineno)
    if not found:
        raise AnalysisError('BaseMergedParser.__init__: min-value marker assignment not found')


def show_nf(nf):
    out = ''
    for p in nf:
        if p[0] == 'lit':
            out += p[1]
        elif p[0] in ('fld', 'const', 'expr'):
            out += '{%s:%s}' % (p[1], p[2])
        else:
            out += '<%s(%s)>' % (p[1], ','.join(p[2]))
    return out


# ---------------------------------------------------------------------------------------------------
# C11.min-guard

def guard_dominates(fn, write_stmt, value_names, marker_ok, par):
    """is write_stmt dominated by an `if <v>.startswith(<marker>) [or ...]: return` for every v in value_names?
    (a guard dominates when it is an earlier sibling of the statement or of one of its ancestors)"""
    def or_leaves(t):
        if isinstance(t, ast.BoolOp) and isinstance(t.op, ast.Or):
            for v in t.values:
                yield from or_leaves(v)
        else:
            yield t

    seen = set()
    cur = write_stmt
    while cur is not fn and cur in par:
        p = par[cur]
        for block in (getattr(p, 'body', None), getattr(p, 'orelse', None)):
            if isinstance(block, list) and any(cur is s for s in block):
                for s in block:
                    if s is cur:
                        break
                    if isinstance(s, ast.If) and s.body and isinstance(s.body[-1], ast.Return) and not s.orelse:
                        for c in or_leaves(s.test):
                            # `v and v.startswith(marker)`: a None-safe spelling of the same filter
                            if isinstance(c, ast.BoolOp) and isinstance(c.op, ast.And) and isinstance(c.values[-1], ast.Call) \
                                    and isinstance(c.values[-1].func, ast.Attribute) and isinstance(c.values[-1].func.value, ast.Name) \
                                    and all(isinstance(v, ast.Name) and v.id == c.values[-1].func.value.id for v in c.values[:-1]):
                                c = c.values[-1]
                            if isinstance(c, ast.Call) and isinstance(c.func, ast.Attribute) and c.func.attr == 'startswith' \
                                    and isinstance(c.func.value, ast.Name) and c.args and marker_ok(c.args[0]):
                                seen.add(c.func.value.id)
        cur = p
    return value_names <= seen


def emitted_names(e):
    """names whose value can be what is stored: the test of a conditional expression only selects, it is not emitted"""
    if isinstance(e, ast.IfExp):
        return emitted_names(e.body) | emitted_names(e.orelse)
    return {n.id for n in ast.walk(e) if isinstance(n, ast.Name)}


MINGUARD_CONTROL = '''
def add(self, resolutions, dtype, mod, result):
    key = 'value'
    value = resolutions[dtype]
    if not value:
        return
    result[key] = value
'''


def rule_min_guard(chk, idx):
    rid = 'C11.min-guard'
    chk.rule(rid, 'the min-value / invalid-date filter dominates the emission of resolved values', floor=3, control=True)
    bm = idx.cls(PKG + '.base_merged.BaseMergedParser')
    chk.consulted(bm.mod.path)
    ev = make_evalc(idx, bm.mod, bm)

    def marker_ok(e):
        if isinstance(e, ast.Attribute) and isinstance(e.value, ast.Name) and e.value.id == 'self' and 'min_value' in e.attr:
            return True
        return ev(e) == '0001-01-01'

    def check(fn):
        """[(stmt, names, dominated, on_mod_path)] for every `result[...] = <resolved value>`"""
        params = [a.arg for a in fn.args.args]
        res, modp = params[-1], params[-2]
        par = parents_of(fn)
        results = []
        for s in own_walk(fn):
            if isinstance(s, ast.Assign) and len(s.targets) == 1 and isinstance(s.targets[0], ast.Subscript) \
                    and isinstance(s.targets[0].value, ast.Name) and s.targets[0].value.id == res:
                names = emitted_names(s.value)
                on_mod = False
                cur = s
                while cur in par and cur is not fn:
                    p = par[cur]
                    if isinstance(p, ast.If) and any(isinstance(n, ast.Name) and n.id == modp for n in ast.walk(p.test)) \
                            and any(cur is x for x in p.body):
                        on_mod = True
                    cur = p
                results.append((s, names, guard_dominates(fn, s, names, marker_ok, par), on_mod))
        results.sort(key=lambda r: r[0].lineno)
        return results

    c = check(ast.parse(MINGUARD_CONTROL).body[0])
    chk.control(rid, len(c) == 1 and c[0][2] is False)
    for name in ('__add_single_date_time_to_resolution', '__add_period_to_resolution'):
        fn = bm.methods.get(name)
        if fn is None:
            raise AnalysisError('anchor vanished: BaseMergedParser.%s' % name)
        res = check(fn)
        if not res:
            raise AnalysisError('BaseMergedParser.%s: no emission `result[...] = value` found' % name)
        plain = [r for r in res if not r[3]]
        modded = [r for r in res if r[3]]
        for i, (s, names, ok, _) in enumerate(plain):
            k = ev(s.targets[0].slice)
            chk.judge(ok, rid, bm.mod.path, 'BaseMergedParser.%s' % name,
                      'emission #%d of key %s dominated by `startswith(min marker) -> return`' % (i + 1, k if isinstance(k, str) else '<computed>'),
                      'the value is emitted without a dominating `if ... %s.startswith(<min-value marker>): return`: a date that '
                      'could not be built (0001-01-01) would be reported as a value' % '/'.join(sorted(names)), s.lineno)
        if modded:
            bad = [r for r in modded if not r[2]]
            chk.judge(not bad, rid, bm.mod.path, 'BaseMergedParser.%s[mod branches]' % name,
                      'emissions under a modifier (before/after/since) not dominated by the invalid-date filter: %d of %d'
                      % (len(bad), len(modded)),
                      'with a before/after/since modifier the start/end of a period is emitted without the invalid-date filter '
                      '(lines %s): an impossible date in the range comes out as the value "0001-01-01" instead of "not resolved"'
                      % ', '.join(str(r[0].lineno) for r in bad), bad[0][0].lineno if bad else fn.lineno)
    # overrides elsewhere must not exist silently
    for c2 in idx.subclasses(bm):
        for name in ('_BaseMergedParser__add_single_date_time_to_resolution', '_generate_from_resolution'):
            if name in c2.methods:
                raise AnalysisError('%s overrides %s: the rule only understands the base implementation' % (c2.name, name))


# ---------------------------------------------------------------------------------------------------
# C11.type-flow

def rule_type_flow(chk, idx, merged_parsers):
    rid = 'C11.type-flow'
    chk.rule(rid, 'type_name and inner type come from _determine_date_time_types with the same arguments; resolution is built '
                  'before slot.type is overwritten', floor=6)
    seen = set()
    for pcls in merged_parsers:
        for kk in idx.mro(pcls):
            if not in_pkg(kk) or kk in seen:
                continue
            seen.add(kk)
            for name, fn in sorted(kk.methods.items()):
                res_calls, type_assigns = [], []
                for n in own_walk(fn):
                    if isinstance(n, ast.Call) and callee_name(n) == '_date_time_resolution' and name != '_date_time_resolution':
                        res_calls.append(n)
                    if isinstance(n, ast.Assign) and any(isinstance(t, ast.Attribute) and t.attr == 'type' for t in n.targets):
                        dc = [c for c in ast.walk(n.value) if isinstance(c, ast.Call) and callee_name(c) == '_determine_date_time_types']
                        if dc:
                            type_assigns.append((n, dc[0]))
                if res_calls and type_assigns:
                    chk.consulted(kk.mod.path)
                    for i, (asg, dc) in enumerate(type_assigns):
                        tgt = [t for t in asg.targets if isinstance(t, ast.Attribute)][0]
                        slot = ast.unparse(tgt.value)
                        rc = [c for c in res_calls if c.args and ast.unparse(c.args[0]) == slot]
                        construct = '%s.%s#%d' % (kk.name, name, i + 1)
                        if not rc:
                            chk.bad(rid, kk.mod.path, construct, 'no _date_time_resolution call on the same slot',
                                    '%s.type is rewritten but the resolution is not built from the same object' % slot, asg.lineno)
                            continue
                        r = rc[0]
                        a_res = [ast.dump(a) for a in r.args[1:]]
                        a_typ = [ast.dump(a) for a in dc.args[1:]]
                        n_ = min(len(a_res), len(a_typ))
                        same = a_res[:n_] == a_typ[:n_] and all(_is_false(a) for a in (r.args[1:][n_:] + dc.args[1:][n_:]))
                        first = ast.unparse(dc.args[0]) == slot + '.type' if dc.args else False
                        before = (r.lineno, r.col_offset) < (asg.lineno, asg.col_offset)
                        msgs = []
                        if not same:
                            msgs.append('modifier flags differ: _date_time_resolution(%s) vs _determine_date_time_types(%s)'
                                        % (', '.join(ast.unparse(a) for a in r.args[1:]), ', '.join(ast.unparse(a) for a in dc.args[1:])))
                        if not first:
                            msgs.append('type_name is not computed from %s.type' % slot)
                        if not before:
                            msgs.append('%s.type is overwritten before the resolution (which dispatches on it) is built' % slot)
                        chk.judge(not msgs, rid, kk.mod.path, construct,
                                  'flags(resolution)==flags(type_name): %s; from slot.type: %s; resolution first: %s' % (same, first, before),
                                  '; '.join(msgs), asg.lineno)
            # inside _date_time_resolution: output type from the same parameters, written under TYPE_KEY
            fn = kk.methods.get('_date_time_resolution')
            if fn is None:
                continue
            chk.consulted(kk.mod.path)
            ev = make_evalc(idx, kk.mod, kk)
            params = [a.arg for a in fn.args.args][1:]
            slot = params[0]
            flags = params[1:]
            aliases = {slot + '.type'}
            out_var = None
            dcall = None
            for n in fn.body:
                if isinstance(n, ast.Assign) and len(n.targets) == 1 and isinstance(n.targets[0], ast.Name):
                    if ast.unparse(n.value) in aliases:
                        aliases.add(n.targets[0].id)
                    if isinstance(n.value, ast.Call) and callee_name(n.value) == '_determine_date_time_types' and out_var is None:
                        out_var, dcall = n.targets[0].id, n.value
            if dcall is None:
                raise AnalysisError('%s._date_time_resolution: call of _determine_date_time_types not found' % kk.name)
            got = [ast.unparse(a) for a in dcall.args]
            ok = bool(got) and got[0] in aliases and got[1:] == flags[:len(got) - 1] and len(got) >= 3
            chk.judge(ok, rid, kk.mod.path, '%s._date_time_resolution#output_type' % kk.name,
                      'output type <- _determine_date_time_types(slot.type, %d flag parameter(s) in order): %s' % (len(got) - 1, ok),
                      'inner type is computed from (%s), expected (slot.type, %s)' % (', '.join(got), ', '.join(flags)), dcall.lineno)
            nkeys = 0
            for n in ast.walk(fn):
                if isinstance(n, ast.Call) and callee_name(n) in ('_add_resolution_fields_any', '_add_resolution_fields') \
                        and len(n.args) == 3 and ev(n.args[1]) == 'type':
                    nkeys += 1
                    chk.judge(isinstance(n.args[2], ast.Name) and n.args[2].id == out_var, rid, kk.mod.path,
                              '%s._date_time_resolution#type-key%d' % (kk.name, nkeys), 'type key <- output type variable',
                              'the `type` key is filled from %s, not from the _determine_date_time_types result' % ast.unparse(n.args[2]),
                              n.lineno)
                if isinstance(n, ast.Dict):
                    for kx, vx in zip(n.keys, n.values):
                        if kx is not None and ev(kx) == 'type':
                            nkeys += 1
                            chk.judge(isinstance(vx, ast.Name) and vx.id == out_var, rid, kk.mod.path,
                                      '%s._date_time_resolution#type-key%d' % (kk.name, nkeys), 'type key <- output type variable',
                                      'the `type` key is filled from %s' % ast.unparse(vx), n.lineno)
                if isinstance(n, ast.Assign) and len(n.targets) == 1 and isinstance(n.targets[0], ast.Subscript) \
                        and ev(n.targets[0].slice) == 'type':
                    nkeys += 1
                    chk.judge(isinstance(n.value, ast.Name) and n.value.id == out_var, rid, kk.mod.path,
                              '%s._date_time_resolution#type-key%d' % (kk.name, nkeys), 'type key <- output type variable',
                              'the `type` key is filled from %s' % ast.unparse(n.value), n.lineno)
            if nkeys < 2:
                raise AnalysisError('%s._date_time_resolution: writes of the `type` key not recognised' % kk.name)


def _is_false(a):
    return isinstance(a, ast.Constant) and a.value is False


# ---------------------------------------------------------------------------------------------------
# C11.pm-range

def rule_pm_range(chk, idx):
    rid = 'C11.pm-range'
    chk.rule(rid, 'to_pm keeps every hour 0..23 inside 0..23 (it is applied to resolved values and TIMEX strings)', floor=1)
    util = idx.cls(PKG + '.utilities.DateTimeFormatUtil')
    if 'to_pm' not in util.methods:
        raise AnalysisError('anchor vanished: DateTimeFormatUtil.to_pm')
    fn = util.methods['to_pm']
    table, spec = to_pm_table(fn, make_evalc(idx, util.mod, util), range(0, 24))
    bad = {h: v for h, v in table.items() if not (0 <= v <= 23)}
    chk.judge(not bad, rid, util.mod.path, 'DateTimeFormatUtil.to_pm',
              'hours mapped outside 0..23: %s' % (sorted(bad.items()) or 'none'),
              'to_pm maps hour(s) %s outside 0..23; _resolve_ampm applies it to values whose hour can exceed 12 (time ranges '
              'whose end was already moved past noon, Chinese times without day part), producing values like "26:05:00"'
              % sorted(bad.items()), fn.lineno)


# ---------------------------------------------------------------------------------------------------
# C11.range-order: the (begin, end) pair of each resolution of a year-less date range is ordered on every path

from .c09 import Interp, Unreadable, PyRaise     # noqa: E402  (concrete mini-interpreter)


def endpoint_defs(fn):
    """{var: (root name, 'future'|'past')} for `v = <root>.value.future_value` / `.past_value` (tuple forms too)"""
    out = {}

    def note(t, v):
        if isinstance(t, ast.Name) and isinstance(v, ast.Attribute) and v.attr in ('future_value', 'past_value') \
                and isinstance(v.value, ast.Attribute) and v.value.attr == 'value' and isinstance(v.value.value, ast.Name):
            out[t.id] = (v.value.value.id, v.attr.split('_')[0], None)

    for n in own_walk(fn):
        if isinstance(n, ast.Assign) and len(n.targets) == 1:
            t, v = n.targets[0], n.value
            if isinstance(t, ast.Tuple) and isinstance(v, ast.Tuple) and len(t.elts) == len(v.elts):
                for x, y in zip(t.elts, v.elts):
                    note(x, y)
            else:
                note(t, v)
            for k in list(out):
                if out[k][2] is None and (k == getattr(t, 'id', None) or (isinstance(t, ast.Tuple) and any(
                        isinstance(x, ast.Name) and x.id == k for x in t.elts))):
                    out[k] = (out[k][0], out[k][1], n)
    return out


def range_order_scan(idx, mod, cls, fn, period=12):
    """-> None when the function has no such pattern, else (failures, nprobes, region statements).
    Model: both endpoints are year-less positions b1, b2 in a `period`-day year; for reference day r each endpoint has
    past = latest occurrence strictly before r and future = earliest on or after r.  The statements that re-assign the four
    variables between their definition and the emission are interpreted on every (b1, b2, r)."""
    defs = endpoint_defs(fn)
    roots = sorted({d[0] for d in defs.values()})
    if len(defs) < 4 or len(roots) != 2:
        return None
    sinks = {}
    for n in own_walk(fn):
        if isinstance(n, ast.Assign) and len(n.targets) == 1 and isinstance(n.targets[0], ast.Attribute) \
                and n.targets[0].attr in ('future_value', 'past_value') and isinstance(n.value, (ast.List, ast.Tuple)) \
                and len(n.value.elts) == 2 and all(isinstance(x, ast.Name) and x.id in defs for x in n.value.elts):
            sinks[n.targets[0].attr] = n
    if set(sinks) != {'future_value', 'past_value'}:
        return None
    par = parents_of(fn)
    last_def = max((d[2] for d in defs.values()), key=lambda n: n.lineno)
    block = None
    for fld in ('body', 'orelse', 'finalbody'):
        b = getattr(par.get(last_def), fld, None)
        if isinstance(b, list) and any(x is last_def for x in b):
            block = b
    if block is None:
        raise AnalysisError('%s.%s: cannot locate the block of the endpoint definitions' % (cls.name, fn.name))
    start = [i for i, x in enumerate(block) if x is last_def][0]
    first_sink = min(sinks.values(), key=lambda n: n.lineno)
    region = []
    for st in block[start + 1:]:
        if st.lineno >= first_sink.lineno:
            break
        assigned = {t.id for n in ast.walk(st) if isinstance(n, (ast.Assign, ast.AugAssign))
                    for t in (n.targets if isinstance(n, ast.Assign) else [n.target]) if isinstance(t, ast.Name)}
        if assigned & set(defs):
            region.append(st)
    failures, n = [], 0
    for b1 in range(period):
        for b2 in range(period):
            for r in range(period, 2 * period):
                n += 1
                pos = dict(zip(roots, (b1, b2)))
                env = {}
                for var, (root, which, _) in defs.items():
                    b = pos[root]
                    past = max(b + k * period for k in range(-1, 3) if b + k * period < r)
                    env[var] = past if which == 'past' else past + period
                it = Interp(idx)
                try:
                    it.block(region, env, (mod, cls, fn))
                except Unreadable as e:
                    raise AnalysisError('%s.%s: the statements that adjust the range endpoints are not pure compare-and-copy: %s'
                                        % (cls.name, fn.name, e))
                except PyRaise as e:
                    raise AnalysisError('%s.%s: endpoint adjustment cannot be evaluated: %s' % (cls.name, fn.name, e))
                for attr, node in sorted(sinks.items()):
                    a, b = (env.get(x.id) for x in node.value.elts)
                    if not (isinstance(a, int) and isinstance(b, int)):
                        raise AnalysisError('%s.%s: emitted endpoints are not copies of the parsed endpoints' % (cls.name, fn.name))
                    if a > b:
                        failures.append((attr, b1, b2, r, a, b))
    return failures, n, region


RANGE_CONTROL = """
def merge(self):
    future_begin = pr1.value.future_value
    future_end = pr2.value.future_value
    past_begin = pr1.value.past_value
    past_end = pr2.value.past_value
    if future_begin > future_end:
        future_begin = past_begin
    elif past_end < past_begin:
        past_end = future_end
    result.future_value = [future_begin, future_end]
    result.past_value = [past_begin, past_end]
"""


def rule_range_order(chk, idx):
    rid = 'C11.range-order'
    chk.rule(rid, 'after the endpoint fix-ups of a year-less date range, begin <= end holds in the future and in the past '
                  'resolution for every position of the reference', floor=1, control=True)
    cmod = idx.mod(PKG + '.base_dateperiod')
    ctl = range_order_scan(idx, cmod, idx.cls(PKG + '.base_dateperiod.BaseDatePeriodParser'), ast.parse(RANGE_CONTROL).body[0])
    chk.control(rid, bool(ctl and ctl[0]))
    found = 0
    for c in sorted(idx.all_classes(), key=lambda k: k.qual):
        if not in_pkg(c) or parser_type_of(idx, c, lambda k: make_evalc(idx, k.mod, k)) != 'daterange':
            continue
        for name, fn in sorted(c.methods.items()):
            if '#' in name:
                continue
            res = range_order_scan(idx, c.mod, c, fn)
            if res is None:
                continue
            found += 1
            failures, n, region = res
            chk.consulted(c.mod.path)
            if failures:
                attr, b1, b2, r, a, b = failures[0]
                ex = ('e.g. in a year of 12 days with the two endpoints on days %d and %d and the reference on day %d: '
                      '%s = [%d, %d] (absolute days)' % (b1, b2, r - 12, attr, a, b))
            chk.judge(not failures, rid, c.mod.path, '%s.%s' % (c.name, name),
                      '%d reference/endpoint configurations, %d adjusting statement(s); unordered pairs: %d%s'
                      % (n, len(region), len(failures), (' (%s)' % sorted({f[0] for f in failures})) if failures else ''),
                      'a resolution keeps its end before its start: %s; %d of %d configurations fail'
                      % (ex if failures else '', len(failures), n), (region[0].lineno if region else fn.lineno))
    if not found:
        raise AnalysisError('no date-range parser function with the (future/past begin/end) endpoint pattern found')


# ---------------------------------------------------------------------------------------------------
# C11.sentinel-guard: a date rebuilt from the fields of a date object that may be the min-value sentinel

DATE_CTORS = {'safe_create_from_min_value', 'safe_create_from_value', 'safe_create_date_resolve_overflow', 'datetime'}
# sites confirmed by reading where the rebuilt object cannot be the sentinel (frozen; anything else must be guarded)
SENTINEL_EXEMPT = {
    ('ChineseHolidayParser', '_match2date'):
        'the date comes from a holiday function evaluated for the same year that is stamped on it; the only Chinese holiday '
        'function returning the sentinel (easter_day) is not reachable from the holiday patterns (triaged: no entity)',
}


def _is_min_value(e):
    return isinstance(e, ast.Attribute) and e.attr == 'min_value'


def sentinel_sites(fn):
    """[(node, kind, root text)]: constructor calls that take month and day but not the year from one object, and
    .replace(year/month/day=...) on a local that may hold the result of safe_create* (which yields the sentinel)"""
    defs = {}
    for n in own_walk(fn):
        if isinstance(n, ast.Assign):
            for t in n.targets:
                if isinstance(t, ast.Name):
                    defs.setdefault(t.id, []).append(n.value)

    def may_be_sentinel(name, seen=()):
        if name in seen:
            return False
        for v in defs.get(name, []):
            if isinstance(v, ast.Call) and callee_name(v) in DATE_CTORS and callee_name(v) != 'datetime':
                return True
            if _is_min_value(v):
                return True
            if isinstance(v, ast.Name) and may_be_sentinel(v.id, seen + (name,)):
                return True
        return False

    out = []
    for c in own_walk(fn):
        if not isinstance(c, ast.Call):
            continue
        name = callee_name(c)
        if name in DATE_CTORS:
            roots = {}
            for a_ in list(c.args) + [k.value for k in c.keywords]:
                if isinstance(a_, ast.Attribute) and a_.attr in ('year', 'month', 'day'):
                    roots.setdefault(ast.unparse(a_.value), set()).add(a_.attr)
            for r, fields in sorted(roots.items()):
                if {'month', 'day'} <= fields and 'year' not in fields:
                    out.append((c, 're-stamp', r))
        elif name == 'replace' and isinstance(c.func, ast.Attribute) and isinstance(c.func.value, ast.Name) \
                and c.keywords and {k.arg for k in c.keywords} <= {'year', 'month', 'day'}:
            x = c.func.value.id
            if may_be_sentinel(x):
                out.append((c, 'replace', x))
    return out, defs


def sentinel_guarded(fn, node, root, defs, par):
    """a validity test of `root` (or of a local it was copied from / to) dominates the site"""
    aliases = {root}
    for _ in range(3):
        for k, vals in defs.items():
            for v in vals:
                if isinstance(v, ast.Name) and (v.id in aliases or k in aliases):
                    aliases.add(k)
                    aliases.add(v.id)

    def tests_valid(t, positive):
        """does the truth (positive) / falsity (not positive) of t imply the object is not the sentinel?"""
        if isinstance(t, ast.UnaryOp) and isinstance(t.op, ast.Not):
            return tests_valid(t.operand, not positive)
        if isinstance(t, ast.BoolOp):
            if isinstance(t.op, ast.And) and positive:
                return any(tests_valid(v, True) for v in t.values)
            if isinstance(t.op, ast.Or) and not positive:
                return any(tests_valid(v, False) for v in t.values)
            return False
        if isinstance(t, ast.Call) and callee_name(t) == 'is_valid_datetime' and t.args and ast.unparse(t.args[0]) in aliases:
            return positive
        if isinstance(t, ast.Compare) and len(t.ops) == 1:
            a_, b_ = t.left, t.comparators[0]
            hit = (ast.unparse(a_) in aliases and _is_min_value(b_)) or (ast.unparse(b_) in aliases and _is_min_value(a_))
            if hit and isinstance(t.ops[0], ast.NotEq):
                return positive
            if hit and isinstance(t.ops[0], ast.Eq):
                return not positive
            # the sentinel is the smallest datetime: `x > y` / `x >= <another date>` can only hold for a real date
            if positive and not _is_min_value(a_) and not _is_min_value(b_):
                if isinstance(t.ops[0], (ast.Gt, ast.GtE)) and ast.unparse(a_) in aliases and not isinstance(b_, ast.Constant):
                    return True
                if isinstance(t.ops[0], (ast.Lt, ast.LtE)) and ast.unparse(b_) in aliases and not isinstance(a_, ast.Constant):
                    return True
        return False

    cur = node
    while cur is not fn and cur in par:
        p_ = par[cur]
        if isinstance(p_, ast.If):
            if any(cur is x for x in p_.body) and tests_valid(p_.test, True):
                return True
            if any(cur is x for x in p_.orelse) and tests_valid(p_.test, False):
                return True
        for fld in ('body', 'orelse', 'finalbody'):
            block = getattr(p_, fld, None)
            if isinstance(block, list) and any(cur is x for x in block):
                for st in block:
                    if st is cur:
                        break
                    if isinstance(st, ast.If) and st.body and isinstance(st.body[-1], (ast.Return, ast.Raise, ast.Continue)) \
                            and not st.orelse and tests_valid(st.test, False):
                        return True
        cur = p_
    return False


SENTINEL_CONTROL = """
def set_date(self, original_date, year=-1):
    value = DateUtils.safe_create_from_min_value(year=self.year, month=original_date.month, day=original_date.day)
    return value
"""


def rule_sentinel(chk, idx):
    rid = 'C11.sentinel-guard'
    chk.rule(rid, 'a date rebuilt from the month/day of another date object, or shifted by .replace(), is dominated by a validity '
                  'test of that object (is_valid_datetime / comparison with min_value): the 0001-01-01 sentinel must not become '
                  'a value', floor=3, control=True)
    cfn = ast.parse(SENTINEL_CONTROL).body[0]
    csites, cdefs = sentinel_sites(cfn)
    chk.control(rid, len(csites) == 1 and not sentinel_guarded(cfn, csites[0][0], csites[0][2], cdefs, parents_of(cfn)))
    n = 0
    for mod in pkg_mods(idx):
        if '.resources' in mod.name:
            continue
        for m, cls, fn in idx.functions(mod):
            sites, defs = sentinel_sites(fn)
            if not sites:
                continue
            par = parents_of(fn)
            counts = {}
            for node, kind, root in sorted(sites, key=lambda x: (x[0].lineno, x[0].col_offset)):
                n += 1
                construct = '%s.%s' % (cls.name if cls else '', fn.name)
                detail = '%s of a possibly unresolved date' % ('month/day re-stamped with another year' if kind == 're-stamp'
                                                               else 'field(s) replaced')
                counts[detail] = counts.get(detail, 0) + 1
                if counts[detail] > 1:
                    detail += ' (#%d)' % counts[detail]
                key = (cls.name if cls else '', fn.name)
                chk.consulted(mod.path)
                if sentinel_guarded(fn, node, root, defs, par):
                    chk.ok(rid, mod.path, construct, detail + ': validity test dominates', node.lineno)
                elif key in SENTINEL_EXEMPT:
                    chk.exempt(rid, mod.path, construct, SENTINEL_EXEMPT[key], detail, node.lineno)
                else:
                    chk.bad(rid, mod.path, construct, detail + ': no validity test',
                            '`%s` rebuilds a date from `%s`, which can be the min-value sentinel (0001-01-01: month 1, day 1 are '
                            'valid), without a dominating `is_valid_datetime(%s)` / `%s != DateUtils.min_value` test: an '
                            'impossible date becomes a value such as <year>-01-01 / 0002-01-01 instead of "not resolved"'
                            % (ast.unparse(node)[:90], root, root, root), node.lineno)
    if n < 3:
        raise AnalysisError('only %d date re-stamp / replace sites found' % n)
    dc = idx.cls(PKG + '.utilities.DateContext')
    if not any(sentinel_sites(f)[0] for f in dc.methods.values()):
        raise AnalysisError('DateContext: the function that re-stamps a date with the context year was not found')


# ---------------------------------------------------------------------------------------------------
# C11.timex-value: the composed '<date> at <time>' TIMEX and value agree on the time of day

def rule_timex_value(chk, idx):
    from .c07 import compose_table, composing_functions, timex_time_part
    rid = 'C11.timex-value'
    chk.rule(rid, 'date+time composition, tabulated (day-part shift scenarios included): the hour / minute / second written into the '
                  'TIMEX are those of the emitted value, and the fields present are those of the time entity\'s own TIMEX', floor=2)
    n = 0
    for c, name, fn in composing_functions(idx):
        cases = compose_table(idx, c.mod, c, fn, make_evalc(idx, c.mod, c))
        if cases is None:
            continue
        n += 1
        chk.consulted(c.mod.path)
        bad = []
        for k in cases:
            if 'raises' in k:
                continue            # reported by C07.compose-value
            tp = timex_time_part(k['timex'])
            fv = k['future']
            if tp is None or not hasattr(fv, 'hour'):
                bad.append('%s marker, time %s: TIMEX %r / value %r not comparable' % (k['scenario'], k['time'], k['timex'], fv))
                continue
            hour, rest = tp
            src_rest = k['time'][3:]
            want_rest = ''.join(':%02d' % x for x in ([fv.minute, fv.second][:src_rest.count(':')]))
            if hour != fv.hour or rest != want_rest:
                bad.append('%s marker, time entity %s: TIMEX %s but value %s' % (k['scenario'], k['time'], k['timex'],
                                                                               fv.strftime('%H:%M:%S')))
        chk.judge(not bad, rid, c.mod.path, '%s.%s' % (c.name, name), '%d compositions interpreted; disagreeing: %s'
                  % (len(cases), '; '.join(bad[:2]) if bad else 'none'),
                  'the TIMEX of the composed date-time does not carry the time of its value: %s%s'
                  % ('; '.join(bad[:3]), ' ... (%d cases)' % len(bad) if len(bad) > 3 else ''), fn.lineno)
    if n < 2:
        raise AnalysisError('only %d date+time composing functions could be tabulated' % n)


# ---------------------------------------------------------------------------------------------------
# C11.timex-value (time ranges by pure numbers): the hours printed into the TIMEX are those of the resolved values

def pure_number_table(idx, cls, fn):
    """interpret parse_pure_numbers for begin / end hours 1..12 under an am or pm marker.
    -> [(scenario, b, e, timex, start, end)]"""
    import datetime as dt
    import re as _re
    from .c09 import Interp, Obj, FuncRef, Unreadable, PyRaise
    ev = make_evalc(idx, cls.mod, cls)
    rows = []
    for scenario in ('am', 'pm'):
        for b in range(1, 13):
            for e in range(1, 13):
                def group_of(call):
                    return ev(call.args[1]) if len(call.args) > 1 else None

                hooks = [
                    (lambda c: callee_name(c) == 'get_group_list' and group_of(c) == 'hour', [str(b), str(e)]),
                    (lambda c: isinstance(c.func, ast.Attribute) and c.func.attr == 'get' and isinstance(c.func.value, ast.Attribute)
                     and c.func.value.attr == 'numbers', None),
                    (lambda c: callee_name(c) == 'get_group' and group_of(c) == 'pm', 'pm' if scenario == 'pm' else ''),
                    (lambda c: callee_name(c) == 'get_group' and group_of(c) == 'am', 'am' if scenario == 'am' else ''),
                    (lambda c: callee_name(c) == 'get_group' and group_of(c) in ('leftDesc', 'rightDesc'), ''),
                ]
                it = Interp(idx, hooks=hooks, oracle=lambda ifnode, expr: False)
                try:
                    res = it.call_function(FuncRef(cls.mod, cls, fn), ['<text>', dt.datetime(2016, 11, 7, 12, 0, 0)], {})
                except Unreadable as ex:
                    raise AnalysisError('%s.%s cannot be interpreted: %s' % (cls.name, fn.name, ex))
                except PyRaise as ex:
                    rows.append((scenario, b, e, 'raises %s' % ex, None, None))
                    continue
                if not isinstance(res, Obj) or not res.attrs.get('success'):
                    continue
                fv = res.attrs.get('future_value')
                start = fv.attrs.get('start') if isinstance(fv, Obj) else None
                end = fv.attrs.get('end') if isinstance(fv, Obj) else None
                rows.append((scenario, b, e, res.attrs.get('timex'), start, end))
    return rows


def rule_timex_range_hours(chk, idx):
    import re as _re
    rid = 'C11.timex-value'
    c = idx.cls(PKG + '.base_timeperiod.BaseTimePeriodParser')
    fn = c.methods.get('parse_pure_numbers')
    if fn is None:
        raise AnalysisError('anchor vanished: BaseTimePeriodParser.parse_pure_numbers')
    rows = pure_number_table(idx, c, fn)
    if len(rows) < 100:
        raise AnalysisError('BaseTimePeriodParser.parse_pure_numbers: only %d of 288 marker/hour combinations produced a result' % len(rows))
    chk.consulted(c.mod.path)
    bad = []
    for scenario, b, e, timex, start, end in rows:
        m = _re.match(r'^\(T(\d+)((?::\d\d)*),T(\d+)((?::\d\d)*),', timex) if isinstance(timex, str) else None
        if m is None or not hasattr(start, 'hour') or not hasattr(end, 'hour'):
            bad.append('%d to %d %s: TIMEX %r / values %r..%r not comparable' % (b, e, scenario, timex, start, end))
            continue
        tb, te = int(m.group(1)), int(m.group(3))
        if not (0 <= tb <= 23 and 0 <= te <= 23) or tb != start.hour or te != end.hour:
            bad.append("'%d to %d%s': TIMEX %s but values %s .. %s" % (b, e, scenario, timex, start.strftime('%H:%M'), end.strftime('%H:%M')))
    chk.judge(not bad, rid, c.mod.path, 'BaseTimePeriodParser.parse_pure_numbers',
              '%d marker/hour combinations interpreted; disagreeing: %s' % (len(rows), '; '.join(bad[:2]) if bad else 'none'),
              'the hours printed into the range TIMEX are not the hours (0..23) of the resolved start / end: %s%s'
              % ('; '.join(bad[:3]), ' ... (%d cases)' % len(bad) if len(bad) > 3 else ''), fn.lineno)


# ---------------------------------------------------------------------------------------------------

def run(chk):
    chk.explanation = ('writer/reader agreement between the 22 date-time parser classes and the merged parser (types dispatched, '
                       'resolution keys written vs read), who-produces rule for stored values, formatter template normal forms, '
                       'guard dominance and argument dataflow inside BaseMergedParser / ChineseMergedParser')
    idx = get_index()
    done = rule_dispatch(chk, idx)
    merged_parsers = []
    for p, e, c in done:
        if p not in merged_parsers:
            merged_parsers.append(p)
    merged_parsers.sort(key=lambda k: k.qual)
    rule_keys(chk, idx, merged_parsers)
    rule_templates(chk, idx)
    rule_min_guard(chk, idx)
    rule_type_flow(chk, idx, merged_parsers)
    rule_pm_range(chk, idx)
    rule_range_order(chk, idx)
    rule_sentinel(chk, idx)
    rule_timex_value(chk, idx)
    rule_timex_range_hours(chk, idx)
    chk.assume('extractor results carry the type given by extractor_type_name or by the explicit third argument of '
               'merge_all_tokens; DateTimeParseResult(source) copies source.type, which each parser checks against its '
               'parser_type_name; a datetime object always formats to a valid calendar date / clock time')



# ---------------------------------------------------------------------------------------------------------------
# generic rules (lead): cross-cutting necessary conditions scoped to the modules this property is anchored in
# (sa/generic.py: filter predicates depend on their element; regex group names read by the code exist)

def _generic_rules(chk):
    import re as _re_
    from ..index import get_index as _gi
    from ..consteval import Resources as _Res
    from .. import generic as _g
    idx_ = _gi()
    scope = _re_.compile('^(?!(base_)?(date|time|datetime|dateperiod|duration|timeperiod|datetimeperiod)(_|$))')
    flt = lambda name: bool(scope.search(name.rsplit('.', 1)[-1]))
    _g.rule_group_names(chk, idx_, _Res(idx_), 'C11.groups', 'recognizers_date_time', flt, floor=3)


_run_before_generic = run


def run(chk):       # noqa: F811
    _run_before_generic(chk)
    _generic_rules(chk)


# ---------------------------------------------------------------------------------------------------------------
# C11.mod-table (lead): which boundary a before/after/since/until modifier emits.  The two emitters of BaseMergedParser are
# small closed functions of (mod, start, end); they are tabulated by the whitelisting interpreter of c13 (no repository code
# runs) over every modifier string combine_mod can build, with opaque non-empty start/end values, and the table is compared
# (a) with the reference semantics shared by all platforms and (b) with the boundary keys the Specs corpus shows for each
# Mod value in cases Python claims to support.  Equivalent re-formulations (nested if / conditional expression / elif
# chains) tabulate identically and stay silent.

MOD_OUTER = ['before', 'after', 'since', 'until']
MOD_INNER = ['', 'start', 'mid', 'end', 'approx', 'more', 'less', 'ref_undef', 'start-approx', 'end-approx']


def mod_domain():
    out = [None, '']
    for i in MOD_INNER:
        if i:
            out.append(i)
    for o in MOD_OUTER:
        for i in MOD_INNER:
            out.append(o + ('-' + i if i else ''))
    return out


def ref_period(m):
    """reference: 'before <period>' ends where the period starts unless its late part is meant; 'after <period>' starts where
    it ends unless its early part is meant; 'since' starts at its start; no outer modifier: both boundaries.
    None = not pinned (since-x / until-x on a period: platforms differ, Python marks those Specs NotSupported)"""
    if not m:
        return {'start': 'S', 'end': 'E'}
    if m.startswith('before'):
        return {'end': 'E' if m.endswith('end') else 'S'}
    if m.startswith('after'):
        return {'start': 'S' if m.endswith('start') else 'E'}
    if m == 'since':
        return {'start': 'S'}
    if m.startswith('since') or m.startswith('until'):
        return None
    return {'start': 'S', 'end': 'E'}


def ref_single(m):
    if m and (m.startswith('before') or m.startswith('until')):
        return {'end': 'V'}
    if m and (m.startswith('after') or m.startswith('since')):
        return {'start': 'V'}
    return {'value': 'V'}


def _mod_interp(idx, cls, evc):
    from .c13 import MiniInterp

    class ModInterp(MiniInterp):
        def ev(self, n, env, depth):
            if isinstance(n, ast.Attribute):
                if isinstance(n.value, ast.Name) and n.value.id == 'self':
                    if 'min_value' in n.attr:
                        return '0001-01-01'
                    self.fail(n, 'attribute of self: ' + n.attr)
                v = evc(n)
                if v is NOVAL:
                    self.fail(n, 'constant ' + ast.unparse(n))
                return v
            if isinstance(n, ast.Subscript) and not isinstance(n.slice, ast.Slice):
                base = self.ev(n.value, env, depth)
                if isinstance(base, dict):
                    k = self.ev(n.slice, env, depth)
                    if k not in base:
                        self.fail(n, 'missing key in ' + ast.unparse(n))
                    return base[k]
            if isinstance(n, ast.Call) and isinstance(n.func, ast.Attribute) and n.func.attr == 'get' and not n.keywords \
                    and 1 <= len(n.args) <= 2:
                base = self.ev(n.func.value, env, depth)
                if isinstance(base, dict):
                    args = [self.ev(a, env, depth) for a in n.args]
                    return base.get(*args)
            if isinstance(n, ast.Constant) and n.value is None:
                return None
            return MiniInterp.ev(self, n, env, depth)

        def assign(self, tgt, val, env, depth):
            if isinstance(tgt, ast.Subscript) and not isinstance(tgt.slice, ast.Slice):
                base = self.ev(tgt.value, env, depth)
                if isinstance(base, dict):
                    base[self.ev(tgt.slice, env, depth)] = val
                    return
            return MiniInterp.assign(self, tgt, val, env, depth)

    return ModInterp(idx, cls, 'BaseMergedParser')


def specs_mod_keys():
    """{Mod: {frozenset(boundary keys)}} over resolution values of range type in DateTimeModel Specs cases that are not marked
    NotSupported / NotSupportedByDesign for Python (read as data; nothing is executed)"""
    import glob
    import json
    import os
    from ..core import REPO
    out, files, cases_n = {}, 0, 0
    for f in sorted(glob.glob(os.path.join(REPO, 'Specs', 'DateTime', '*', 'DateTimeModel*.json'))):
        try:
            cases = json.load(open(f, encoding='utf-8-sig'))
        except (ValueError, OSError) as e:
            raise AnalysisError('cannot read %s: %s' % (rel(f), e))
        files += 1
        for c in cases:
            ns = (c.get('NotSupported') or '') + ',' + (c.get('NotSupportedByDesign') or '')
            if 'python' in ns.lower():
                continue
            for r in c.get('Results') or []:
                res = r.get('Resolution')
                if not isinstance(res, dict):
                    continue
                for v in res.get('values') or []:
                    if isinstance(v, dict) and v.get('Mod') and str(v.get('type', '')).endswith('range'):
                        ks = frozenset(k for k in v if k in ('start', 'end', 'value'))
                        if ks and 'value' not in ks:
                            out.setdefault(v['Mod'], set()).add(ks)
                            cases_n += 1
    return out, files, cases_n


MODTABLE_CONTROL = '''
def add(self, resolutions, start_type, end_type, mod, result):
    start = resolutions.get(start_type, None)
    end = resolutions.get(end_type, None)
    if mod:
        if mod.startswith('before'):
            result['end'] = end if mod.endswith('end') else start
            return
        if mod.startswith('after'):
            result['start'] = start if mod.endswith('end') else end
            return
    result['start'] = start
    result['end'] = end
'''


def rule_mod_table(chk, idx):
    rid = 'C11.mod-table'
    chk.rule(rid, 'the boundary emitted under a before/after/since/until modifier (key and which end of the period) follows the '
                  'shared semantics and the keys the supported Specs show for that Mod', floor=60, control=True)
    bm = idx.cls(PKG + '.base_merged.BaseMergedParser')
    chk.consulted(bm.mod.path)
    evc = make_evalc(idx, bm.mod, bm)
    dom = mod_domain()

    from ..ointerp import FuncRef, Interp, Obj, PyExc

    def _tab(fn, args, owner):
        it = Interp(idx, where='C11.mod-table (BaseMergedParser.%s)' % fn.name, budget=200000)
        selfo = Obj(bm, {'_BaseMergedParser__date_min_value': '0001-01-01', '_date_min_value': '0001-01-01'})
        result = {}
        try:
            if owner is None:
                it.call_function(FuncRef(bm.mod, fn, None), [selfo] + args + [result], {})
            else:
                it.call_function(FuncRef(bm.mod, fn, owner), args + [result], {}, None, selfobj=selfo)
        except PyExc as e:
            return {'<raises>': str(e)}
        out = {}
        for k, v in result.values():
            if not isinstance(k, str) or not (v is None or isinstance(v, str)):
                raise AnalysisError('C11.mod-table: the emitter stores %r under %r' % (v, k))
            out[k] = v
        return out

    def tab_period(fn, m, owner=bm):
        return _tab(fn, [{'s': ('s', 'S'), 'e': ('e', 'E')}, 's', 'e', m], owner)

    def tab_single(fn, m, owner=bm):
        return _tab(fn, [{'t': ('t', 'V')}, 't', m], owner)

    ctl = ast.parse(MODTABLE_CONTROL).body[0]
    chk.control(rid, tab_period(ctl, 'after-start', None) != ref_period('after-start')
                and tab_period(ctl, 'before-end', None) == ref_period('before-end'))
    fp = bm.methods.get('__add_period_to_resolution')
    fs = bm.methods.get('__add_single_date_time_to_resolution')
    if fp is None or fs is None:
        raise AnalysisError('anchor vanished: BaseMergedParser.__add_period_to_resolution / __add_single_date_time_to_resolution')
    table_p, table_s = {}, {}
    show = lambda t: ', '.join('%s=%s' % kv for kv in sorted(t.items())) or 'nothing'
    for m in dom:
        tp, ts = tab_period(fp, m), tab_single(fs, m)
        table_p[m], table_s[m] = tp, ts
        rp, rs = ref_period(m), ref_single(m)
        if rp is not None:
            chk.judge(tp == rp, rid, bm.mod.path, 'BaseMergedParser.__add_period_to_resolution[mod=%r]' % m,
                      'emits ' + show(rp),
                      'for a period (S..E) under modifier %r the merger emits %s; the shared semantics are %s (before a period = '
                      'before its start unless the late part is meant, after a period = after its end unless the early part is '
                      'meant)' % (m, show(tp), show(rp)), fp.lineno)
        chk.judge(ts == rs, rid, bm.mod.path, 'BaseMergedParser.__add_single_date_time_to_resolution[mod=%r]' % m,
                  'emits ' + show(rs),
                  'for a single value V under modifier %r the merger emits %s, expected %s' % (m, show(ts), show(rs)), fs.lineno)
    specs, files, n = specs_mod_keys()
    if files < 5 or n < 100:
        raise AnalysisError('Specs/DateTime/*/DateTimeModel*.json: only %d files / %d modified range values found' % (files, n))
    for m in sorted(specs):
        if m not in table_p:
            chk.observe('C11.mod-table: Specs Mod value %r is outside the tabulated domain' % m)
            continue
        have = {frozenset(table_p[m]), frozenset(table_s[m])}
        for ks in sorted(specs[m], key=sorted):
            chk.judge(ks in have, rid, bm.mod.path, 'Specs Mod %r -> keys {%s}' % (m, ','.join(sorted(ks))),
                      'one of the emitters yields exactly these boundary keys',
                      'Python-supported Specs cases with Mod %r carry the boundary keys {%s}; the merger emits {%s} (period) or '
                      '{%s} (single value) for that modifier' % (m, ','.join(sorted(ks)), ','.join(sorted(table_p[m])),
                                                                  ','.join(sorted(table_s[m]))), fp.lineno)


_run_before_modtable = run


def run(chk):       # noqa: F811
    _run_before_modtable(chk)
    rule_mod_table(chk, get_index())


# ---------------------------------------------------------------------------------------------------
# C11.maxday-args: the month-length guard looks up the month of the year of the date it protects

MAXDAY_CONTROL = '''
def f(self, reference, day):
    year = reference.year
    month = reference.month
    year += 1
    if day > self.get_month_max_day(reference.year, month):
        d = None
    else:
        d = DateUtils.safe_create_from_min_value(year, month, day)
    return d
'''
DATE_BUILDERS = ('safe_create_from_min_value', 'datetime')


def _alias_nf(fn, e):
    """normal form of an argument: a local bound exactly once to a name / attribute chain is replaced by it"""
    binds = {}
    for n in ast.walk(fn):
        tg = []
        if isinstance(n, ast.Assign):
            tg = [(t, n.value) for t in n.targets]
        elif isinstance(n, (ast.AugAssign, ast.AnnAssign)):
            tg = [(n.target, None if isinstance(n, ast.AugAssign) else n.value)]
        elif isinstance(n, (ast.For, ast.comprehension)):
            tg = [(n.target, None)]
        for t, v in tg:
            for nm in ast.walk(t):
                if isinstance(nm, ast.Name):
                    binds.setdefault(nm.id, []).append(v if isinstance(t, ast.Name) else None)
    seen = set()
    while isinstance(e, ast.Name) and e.id in binds and len(binds[e.id]) == 1 and e.id not in seen:
        v = binds[e.id][0]
        if not isinstance(v, (ast.Name, ast.Attribute)):
            break
        seen.add(e.id)
        e = v
    return ast.unparse(e)


def maxday_sites(fn):
    """[(call, verdict, detail)] for every get_month_max_day(y, m) call of fn; verdict True/False; raises AnalysisError"""
    par = parents_of(fn)
    out = []
    for call in own_walk(fn):
        if not (isinstance(call, ast.Call) and callee_name(call) == 'get_month_max_day'):
            continue
        if len(call.args) != 2 or call.keywords:
            raise AnalysisError('%s:%d: get_month_max_day call is not of the form (year, month)' % (fn.name, call.lineno))
        cmp_ = par.get(call)
        top, negated = cmp_, False
        while isinstance(par.get(top), ast.UnaryOp) and isinstance(par[top].op, ast.Not):
            top, negated = par[top], not negated
        if not (isinstance(cmp_, ast.Compare) and len(cmp_.ops) == 1 and isinstance(par.get(top), ast.If)
                and par[top].test is top):
            raise AnalysisError('%s:%d: get_month_max_day is not compared directly in an `if` test' % (fn.name, call.lineno))
        iff, op = par[top], cmp_.ops[0]
        call_right = cmp_.comparators[0] is call
        other = cmp_.left if call_right else cmp_.comparators[0]
        if isinstance(op, (ast.Gt, ast.GtE)):
            over_is_body = call_right           # day > max  -> body is the overflow branch
        elif isinstance(op, (ast.Lt, ast.LtE)):
            over_is_body = not call_right       # max < day  -> body is the overflow branch
        else:
            raise AnalysisError('%s:%d: get_month_max_day compared with %s' % (fn.name, call.lineno, type(op).__name__))
        inrange = iff.orelse if over_is_body != negated else iff.body
        y, m, d = _alias_nf(fn, call.args[0]), _alias_nf(fn, call.args[1]), _alias_nf(fn, other)
        builds = []
        for st in inrange:
            for n in ast.walk(st):
                if isinstance(n, ast.Call) and callee_name(n) in DATE_BUILDERS and len(n.args) >= 3 and not n.keywords:
                    builds.append(tuple(_alias_nf(fn, a) for a in n.args[:3]))
        same_md = sorted({b for b in builds if b[1] == m and b[2] == d})
        if not same_md:
            raise AnalysisError('%s:%d: the in-range branch of the get_month_max_day(%s, %s) guard builds no date from (%s, %s)'
                                % (fn.name, call.lineno, y, m, m, d))
        years = sorted({b[0] for b in same_md})
        out.append((call, years == [y], 'guard get_month_max_day(%s, %s) protects date(%s, %s, %s)'
                    % (y, m, '|'.join(years), m, d)))
    return out


def rule_maxday_args(chk, idx):
    rid = 'C11.maxday-args'
    chk.rule(rid, 'the month-length test `day > get_month_max_day(y, m)` is asked about the year and month of the date built in its '
                  'in-range branch (same normal form): otherwise Feb 29 of a leap target year is resolved to neighbouring months '
                  'while the TIMEX names it', floor=1, control=True)
    cs = maxday_sites(ast.parse(MAXDAY_CONTROL).body[0])
    chk.control(rid, len(cs) == 1 and cs[0][1] is False)
    n = 0
    for mod in pkg_mods(idx):
        if '.resources' in mod.name:
            continue
        for m, cls, fn in idx.functions(mod):
            for call, good, detail in maxday_sites(fn):
                n += 1
                chk.consulted(mod.path)
                construct = '%s.%s' % (cls.name if cls else '', fn.name)
                if good:
                    chk.ok(rid, mod.path, construct, detail, call.lineno)
                else:
                    chk.bad(rid, mod.path, construct, detail,
                            '`%s` tests the day against the length of a month of another year than the one the value is built '
                            'with: when only one of the two years is a leap year, 29 February is either sent to the overflow '
                            'fallback (values in January/March under a TIMEX naming February 29) or passed to the date builder '
                            'and lost' % ast.unparse(call), call.lineno)
    if n < 1:
        raise AnalysisError('anchor vanished: no get_month_max_day(year, month) guard found in the date-time parsers')


_run_before_maxday = run


def run(chk):       # noqa: F811
    _run_before_maxday(chk)
    rule_maxday_args(chk, get_index())
