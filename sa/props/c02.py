"""C02 - recognition is a pure function of (query, culture, options, reference date).

Effect discipline decided from the ASTs of every package a recogniser imports (closure of the modules that define
`Model` / `Recognizer` subclasses; `datatypes_timex_expression` is outside that closure today):

 C02.shared-write     every write that may reach shared state - store / augmented store / del through an expression
                      rooted at `self`, a class, a module-level name or a local alias of one (aliases are followed through
                      assignment, iteration, `.get/.values/.items`, subscripts and callee results until a copying
                      constructor intervenes), builtin mutator call on such an expression, `global` rebinding - lies in a
                      constructor, or in a method that is *build-time only*: every call chain that reaches it (class
                      hierarchy + name resolution) starts in a constructor or on a freshly allocated object.  The
                      ModelFactory cache write is the one run-time writer and has its own rule.
 C02.param-mutation   functions that overwrite fields of / call mutators on a parameter (parsers rewrite the ExtractResult
                      they are handed) are only ever handed per-call objects: no call site binds an expression rooted in
                      shared state to a formal the callee (transitively) mutates, outside build-time code.
 C02.cache-key        the process-wide model cache is written in one place, keyed by every parameter of the writer except
                      the stored value, read under a key built the same way, and written only after a miss.
 C02.ambient          wall clock / random / environment / thread identity reads occur only as the defaulting idiom
                      `if reference is None: reference = datetime.now()`; three reviewed exceptions are re-validated
                      structurally (equality-only comparison, the import-time default pair that meets only in
                      `(b - a).days`, results consumed only through `.timex_str`).
 C02.decimal-context  every context-dependent Decimal operation (arithmetic with an operand of Decimal kind, `getcontext()`
                      use) is dominated by an explicit context: `@precision(prec=..)` - whose *definition* is verified on
                      every run to run the call under `with localcontext() as ctx: ctx.prec = <prec argument>` -,
                      `with localcontext() as c: c.prec = ..`, or every caller is.  A module-level or unguarded
                      `getcontext().prec = ..` is thread-local configuration.
 C02.mutable-default  a mutable default argument is never mutated, neither directly nor through the attribute it is stored in.
 C02.class-mutable    a write through `self.<attr>` (in a constructor or a build-time helper) never lands in a class-level
                      list / dict / set that no constructor of the chain rebinds per instance (one object for all instances).
 C02.one-shot         no one-shot iterator (map / filter / zip / generator) is stored in shared state.
 C02.decorators       every decorator is on the reviewed list; memoising decorators make the result shared state.

Callee resolution has no type information (see META['note']).
"""
import ast

from ..core import AnalysisError
from ..index import Index, Mod, get_index

LEVEL = 'other'
DESIGN_REF = 'DESIGN.md#c02'
META = {
    'text': 'effect discipline on the recognise path: no shared-state write outside constructors and build-time-only '
            'methods (who-may-call rule), parameter mutation confined to per-call objects, model cache keyed by all of '
            '(model type, culture, options) with a single guarded writer, no ambient reads (clock / random / environment) '
            'beyond the `reference is None` defaulting idiom, every Decimal operation under an explicit context, mutable '
            'defaults and class-level containers never mutated, no one-shot iterators or memo decorators in shared state',
    'note': 'Callee resolution is class hierarchy + name: `self.m()` / `super().m()` / `Class.m()` resolve through the MRO '
            'and all overrides in subclasses, any other receiver resolves to every method named m in the analysed packages, '
            'calls through variables resolve to every function referenced as a value; getattr / setattr with a non-constant '
            'name, __setattr__ / __getattr__ hooks, exec / eval / globals() make the analysis fail closed (ANALYSIS-ERROR). '
            'Alias analysis is per function, field-insensitive, and flow-insensitive except that a binding which dominates a '
            'write site in straight-line code kills earlier bindings of the same local: an object stays "rooted" in shared '
            'state through attribute access, subscripts, iteration, .get/.values/.items and callee results that return self '
            '/ a parameter / a global; list()/dict()/sorted()/copy/deepcopy, slices, comprehensions and literals yield fresh '
            'objects (a shallow copy is treated as fresh: mutation of an *element* of a copied container is not seen). '
            'Not decided: mutation of a shared object reached through a field of a per-call object (e.g. '
            'MatchResult.canonical_values aliases the trie value list - checked by attribute name only); augmented '
            'assignment to a plain local alias (`x += [..]`) unless the right-hand side is a container display; Decimal '
            'values that travel through object fields (`pr.value * 2` is not recognised as Decimal arithmetic); that '
            '`timex_str` of duration / time results is independent of the reference date (assumed, see C06); races inside '
            'CPython / regex internals; equality of results under true parallel interleavings beyond "no shared writes => '
            'no interference"; hash-seed dependent set ordering; import-time mutation of other modules\' tables.',
    'technique': 'whole-program effect analysis over ast: per-function summaries (mutated roots, returned roots, Decimal '
                 'kind) to a fixpoint with class-hierarchy + name call resolution, greatest-fixpoint who-may-call '
                 'predicates (build-time only, context covered), structural idiom matching for ambient reads and the cache',
}

EMPTY = frozenset()
SELF = 'self'

CTOR_NAMES = {'__init__', '__new__', '__post_init__', '__init_subclass__', '__set_name__'}
PROTOCOL_MUT = {'__setitem__', '__delitem__', '__iadd__', '__ior__', '__iand__', '__isub__', '__imul__'}
HOOKS = {'__setattr__', '__getattr__', '__getattribute__', '__delattr__', '__set__', '__get__', '__delete__',
         '__class_getitem__', '__missing__'}

MUTATORS = {'append', 'extend', 'insert', 'pop', 'remove', 'clear', 'sort', 'reverse', 'update', 'setdefault', 'popitem',
            'add', 'discard', 'appendleft', 'popleft', 'extendleft', 'rotate', 'put', 'put_nowait', 'get_nowait',
            'intersection_update', 'difference_update', 'symmetric_difference_update', 'move_to_end', 'subtract',
            '__setitem__', '__delitem__', '__iadd__', '__setattr__', '__delattr__', 'write', 'writelines', 'truncate',
            'seek', 'send', 'acquire', 'release', 'set', 'task_done'}
PASS_METHODS = {'get', 'values', 'items', 'keys', 'setdefault', 'pop', 'popitem', '__getitem__', 'most_common', 'elements',
                '__iter__', '__next__'}
FRESH_METHODS = {'copy', 'deepcopy', '__copy__', '__deepcopy__', 'split', 'rsplit', 'splitlines', 'partition', 'rpartition',
                 'strip', 'lstrip', 'rstrip', 'lower', 'upper', 'replace', 'format', 'join', 'casefold', 'title',
                 'group', 'groups', 'groupdict', 'captures', 'span', 'start', 'end', 'encode', 'decode', 'union',
                 'intersection', 'difference', 'symmetric_difference', 'index', 'count', 'find', 'rfind', 'startswith',
                 'endswith', 'isdigit', 'isspace', 'isalpha', 'total_seconds', 'date', 'time', 'timetuple', 'weekday',
                 'isoweekday', 'isocalendar', 'strftime', 'isoformat', 'findall', 'finditer', 'search', 'match', 'fullmatch',
                 'sub', 'subn', 'compile'}
PASS_FUNCS = {'enumerate', 'zip', 'reversed', 'iter', 'next', 'min', 'max', 'filter', 'map', 'vars'}
ONESHOT_FUNCS = {'map', 'filter', 'zip', 'iter', 'reversed', 'enumerate'}
EXTERNAL_ARG_MUT = {'heappush', 'heappop', 'heapify', 'heapreplace', 'heappushpop', 'shuffle', 'insort', 'insort_left',
                    'insort_right'}
APPLYING_FUNCS = {'map', 'filter', 'sorted', 'min', 'max', 'any', 'all', 'sum', 'next', 'list', 'tuple', 'set', 'reduce',
                  'takewhile', 'dropwhile', 'groupby', 'starmap'}
CONTAINER_CTORS = {'list', 'dict', 'set', 'defaultdict', 'OrderedDict', 'Counter', 'deque', 'bytearray'}

IMMUTABLE_CTORS = {'datetime', 'date', 'time', 'timedelta', 'timezone', 'Decimal', 'frozenset', 'str', 'int', 'float', 'bool',
                   'namedtuple', 'TypeVar', 'NewType', 'object', 'range', 'bytes', 'complex', 'Fraction', 'property',
                   'staticmethod', 'classmethod', 'MappingProxyType', 'auto'}
SAFE_DECORATORS = {'property', 'staticmethod', 'classmethod', 'abstractmethod', 'abstractproperty', 'dispatch', 'overload',
                   'abstractstaticmethod', 'abstractclassmethod', 'wraps', 'total_ordering', 'dataclass', 'final',
                   'unique', 'runtime_checkable', 'contextmanager', 'override', 'deprecated', 'no_type_check'}
MEMO_DECORATORS = {'lru_cache', 'cache', 'cached_property', 'memoize', 'memoized', 'memo', 'singledispatch',
                   'singledispatchmethod', 'cachedmethod', 'cached'}
DYNAMIC_CALLS = {'exec', 'eval', 'globals', 'locals', '__import__'}

DEBUG = False


def dbg(*a):
    if DEBUG:
        print('DBG', *a)


def deco_name(d):
    """(bare name, node) of a decorator expression: `a.b.name(...)` -> 'name'"""
    e = d.func if isinstance(d, ast.Call) else d
    if isinstance(e, ast.Attribute):
        return e.attr
    if isinstance(e, ast.Name):
        return e.id
    return None


def is_const_str(e):
    return isinstance(e, ast.Constant) and isinstance(e.value, str)


# =====================================================================================================
# function units
# =====================================================================================================

class Unit:
    __slots__ = ('mod', 'cls', 'node', 'name', 'qual', 'pos', 'kwonly', 'vararg', 'kwarg', 'is_static', 'is_classmethod',
                 'recv', 'formals', 'kind', 'decos', 'locals', 'gdecl', 'binds', 'stores', 'calls', 'returns', 'augs',
                 'env', 'mut', 'ret', 'oneshot', 'oneshot_ret', 'memo', 'lambdas', 'all_params', 'trivial',
                 'defaults', 'limports', 'where', 'bind_pos', 'loops')

    def __init__(self, mod, cls, node):
        self.mod, self.cls, self.node = mod, cls, node
        self.name = node.name
        self.qual = ((cls.name + '.') if cls is not None else '') + node.name
        a = node.args
        self.pos = [x.arg for x in a.posonlyargs + a.args]
        self.kwonly = [x.arg for x in a.kwonlyargs]
        self.vararg = a.vararg.arg if a.vararg else None
        self.kwarg = a.kwarg.arg if a.kwarg else None
        self.decos = [deco_name(d) for d in node.decorator_list]
        self.is_static = 'staticmethod' in self.decos or 'abstractstaticmethod' in self.decos
        self.is_classmethod = 'classmethod' in self.decos or 'abstractclassmethod' in self.decos
        if cls is not None and not self.is_static and self.pos:
            self.recv = self.pos[0]
            self.formals = self.pos[1:]
        else:
            self.recv = None
            self.formals = list(self.pos)
        self.all_params = set(self.pos) | set(self.kwonly) | ({self.vararg} if self.vararg else set()) \
            | ({self.kwarg} if self.kwarg else set())
        if node.name in CTOR_NAMES and cls is not None:
            self.kind = 'ctor'
        elif any(isinstance(d, ast.Attribute) and d.attr in ('setter', 'deleter') for d in node.decorator_list):
            self.kind = 'setter'
        elif node.name in PROTOCOL_MUT and cls is not None:
            self.kind = 'protocol'
        else:
            self.kind = 'plain'
        self.memo = any(d in MEMO_DECORATORS for d in self.decos)
        self.locals = set(self.all_params)
        self.gdecl = set()
        self.binds = []      # (name, value expr | None, mode)   mode: 'assign' | 'elem' | 'iter' | 'fresh' | ('lambda', call)
        self.stores = []     # (target expr, stmt node, kind, value expr | None)
        self.augs = []       # (name, stmt node, value)   augmented assignment to a plain name
        self.calls = []      # ast.Call
        self.returns = []    # exprs
        self.lambdas = []
        self.env = {}
        self.mut = set()
        self.ret = set()
        self.oneshot = set()
        self.oneshot_ret = False
        self.trivial = False
        self.limports = {}
        self.where = {}       # id(stmt | call) -> (line, block path)
        self.bind_pos = []    # parallel to binds
        self.loops = set()    # ids of loop statements / comprehensions
        self.defaults = {}
        pos = a.posonlyargs + a.args
        for p, d in zip(pos[len(pos) - len(a.defaults):], a.defaults):
            self.defaults[p.arg] = d
        for p, d in zip(a.kwonlyargs, a.kw_defaults):
            if d is not None:
                self.defaults[p.arg] = d

    def __repr__(self):
        return '<Unit %s.%s>' % (self.mod.name, self.qual)

    def is_local(self, name):
        return name in self.locals and name not in self.gdecl and name not in self.limports

    @property
    def path(self):
        return self.mod.path


class _Collect(ast.NodeVisitor):
    """one pass over a function body (nested defs and lambdas are folded into the enclosing unit)"""

    def __init__(self, u):
        self.u = u
        self.stack = []       # block path: (id(owner statement), field) entries; ('deferred',) inside nested defs / lambdas

    def run(self):
        for st in self.u.node.body:
            self.visit(st)

    def here(self, n):
        return (getattr(n, 'lineno', 0), tuple(self.stack))

    def _bind(self, name, value, mode, n):
        self.u.binds.append((name, value, mode))
        self.u.bind_pos.append(self.here(n))

    def _block(self, owner, field, stmts):
        self.stack.append((id(owner), field))
        for st in stmts:
            self.visit(st)
        self.stack.pop()

    # ---- scopes
    def visit_FunctionDef(self, n):
        u = self.u
        u.locals.add(n.name)
        a = n.args
        for x in a.posonlyargs + a.args + a.kwonlyargs:
            u.locals.add(x.arg)
            self._bind(x.arg, None, 'fresh', n)
        for x in (a.vararg, a.kwarg):
            if x is not None:
                u.locals.add(x.arg)
        for d in a.defaults + [d for d in a.kw_defaults if d is not None]:
            self.visit(d)
        self.stack.append(('deferred',))
        for st in n.body:
            self.visit(st)
        self.stack.pop()

    visit_AsyncFunctionDef = visit_FunctionDef

    def visit_ClassDef(self, n):
        raise AnalysisError('%s:%d class defined inside function %s - not understood by the effect analysis'
                            % (self.u.mod.rel, n.lineno, self.u.qual))

    def visit_Lambda(self, n):
        a = n.args
        for x in a.posonlyargs + a.args + a.kwonlyargs:
            self.u.locals.add(x.arg)
        for x in (a.vararg, a.kwarg):
            if x is not None:
                self.u.locals.add(x.arg)
        self.u.lambdas.append(n)
        self.stack.append(('deferred',))
        self.visit(n.body)
        self.stack.pop()

    def visit_Global(self, n):
        self.u.gdecl.update(n.names)

    def visit_Nonlocal(self, n):
        pass        # nested functions are folded into the enclosing unit: the name is a local of that unit

    def visit_Import(self, n):
        for a in n.names:
            nm = a.asname or a.name.split('.')[0]
            self.u.locals.add(nm)
            self.u.limports[nm] = ('mod', a.name if a.asname else a.name.split('.')[0])

    def visit_ImportFrom(self, n):
        m = self.u.mod
        base = m.package().split('.') if m.package() else []
        if n.level > 1:
            base = base[:len(base) - (n.level - 1)]
        src = '.'.join((base if n.level else []) + (n.module.split('.') if n.module else []))
        for a in n.names:
            nm = a.asname or a.name
            self.u.locals.add(nm)
            self.u.limports[nm] = ('from', src, a.name)

    # ---- binding forms
    def _target(self, t, value, mode, stmt):
        u = self.u
        if isinstance(t, ast.Name):
            u.locals.add(t.id)
            self._bind(t.id, value, mode, stmt)
        elif isinstance(t, (ast.Tuple, ast.List)):
            for e in t.elts:
                self._target(e, value, 'elem' if mode == 'assign' else mode, stmt)
        elif isinstance(t, ast.Starred):
            self._target(t.value, value, mode, stmt)
        elif isinstance(t, (ast.Attribute, ast.Subscript)):
            u.stores.append((t, stmt, 'store', value))
            u.where[id(stmt)] = self.here(stmt)
            self.visit(t)

    def visit_If(self, n):
        self.visit(n.test)
        self._block(n, 'body', n.body)
        self._block(n, 'orelse', n.orelse)

    def visit_While(self, n):
        self.u.loops.add(id(n))
        self.stack.append((id(n), 'loop'))
        self.visit(n.test)
        self._block(n, 'body', n.body)
        self.stack.pop()
        self._block(n, 'orelse', n.orelse)

    def visit_Try(self, n):
        self._block(n, 'body', n.body)
        for h in n.handlers:
            self.stack.append((id(h), 'handler'))
            self.visit(h)
            self.stack.pop()
        self._block(n, 'orelse', n.orelse)
        self._block(n, 'finalbody', n.finalbody)

    visit_TryStar = visit_Try

    def _comp(self, n):
        self.u.loops.add(id(n))
        self.stack.append((id(n), 'loop'))
        self.generic_visit(n)
        self.stack.pop()

    visit_ListComp = visit_SetComp = visit_DictComp = visit_GeneratorExp = _comp

    def visit_Assign(self, n):
        self.visit(n.value)
        for t in n.targets:
            self._target(t, n.value, 'assign', n)

    def visit_AnnAssign(self, n):
        if n.value is not None:
            self.visit(n.value)
            self._target(n.target, n.value, 'assign', n)
        elif isinstance(n.target, ast.Name):
            self.u.locals.add(n.target.id)

    def visit_AugAssign(self, n):
        self.visit(n.value)
        t = n.target
        self.u.where[id(n)] = self.here(n)
        if isinstance(t, ast.Name):
            self.u.locals.add(t.id)
            self.u.augs.append((t.id, n, n.value))
        else:
            self.u.stores.append((t, n, 'aug', n.value))
            self.visit(t)

    def visit_Delete(self, n):
        for t in n.targets:
            if isinstance(t, (ast.Attribute, ast.Subscript)):
                self.u.stores.append((t, n, 'del', None))
                self.u.where[id(n)] = self.here(n)
                self.visit(t)

    def visit_For(self, n):
        self.visit(n.iter)
        self.u.loops.add(id(n))
        self.stack.append((id(n), 'loop'))
        self._target(n.target, n.iter, 'iter', n)
        self._block(n, 'body', n.body)
        self.stack.pop()
        self._block(n, 'orelse', n.orelse)

    visit_AsyncFor = visit_For

    def visit_comprehension(self, n):
        self.visit(n.iter)
        self._target(n.target, n.iter, 'iter', n)
        for c in n.ifs:
            self.visit(c)

    def visit_With(self, n):
        for it in n.items:
            self.visit(it.context_expr)
            if it.optional_vars is not None:
                self._target(it.optional_vars, None, 'fresh', n)
        self._block(n, 'body', n.body)

    visit_AsyncWith = visit_With

    def visit_NamedExpr(self, n):
        self.visit(n.value)
        self._target(n.target, n.value, 'assign', n)

    def visit_ExceptHandler(self, n):
        if n.name:
            self.u.locals.add(n.name)
        self.generic_visit(n)

    def visit_Return(self, n):
        if n.value is not None:
            self.u.returns.append(n.value)
            self.visit(n.value)

    def visit_Yield(self, n):
        if n.value is not None:
            self.u.returns.append(n.value)
            self.visit(n.value)

    def visit_YieldFrom(self, n):
        self.u.returns.append(n.value)
        self.visit(n.value)

    def visit_Call(self, n):
        self.u.calls.append(n)
        self.u.where[id(n)] = self.here(n)
        lams = [a for a in list(n.args) + [k.value for k in n.keywords] if isinstance(a, ast.Lambda)]
        for lam in lams:
            for x in lam.args.posonlyargs + lam.args.args:
                self._bind(x.arg, n, ('lambda', lam), n)
        self.generic_visit(n)


class Agg:
    """summary of a candidate set, expressed in call-site positions"""
    __slots__ = ('mut_self', 'mut_pos', 'mut_kw', 'mut_var_from', 'mut_anykw', 'ret_self', 'ret_pos', 'ret_kw', 'ret_g',
                 'ret_var_from', 'oneshot', 'n')

    def __init__(self):
        self.mut_self = False
        self.mut_pos = set()
        self.mut_kw = set()
        self.mut_var_from = None
        self.mut_anykw = False
        self.ret_self = False
        self.ret_pos = set()
        self.ret_kw = set()
        self.ret_g = set()
        self.ret_var_from = None
        self.oneshot = False
        self.n = 0


# =====================================================================================================
# the whole-program analysis
# =====================================================================================================

class Analysis:
    def __init__(self, idx, scope_pkgs=None):
        self.idx = idx
        self.scope_pkgs = scope_pkgs
        self.units = []
        self.by_name = {}
        self.unit_of = {}             # id(FunctionDef) -> Unit
        self.module_calls = {}        # mod name -> [Call] at module / class level
        self._gcache = {}
        self._related = {}
        self._subs = None
        self._agg = {}
        self._cand = {}
        self.field_g = {}             # (class qual, attr) -> set of g roots assigned to self.attr
        self.esc_names = set()
        self.props = {}
        self._at = None
        self._at_unit = None
        self.esc_units = []
        self._build_units()

    # ---- universe
    def in_scope(self, m):
        if self.scope_pkgs is None:
            return True
        return m.name.split('.')[0] in self.scope_pkgs

    def _build_units(self):
        for m in self.idx.mods.values():
            if not self.in_scope(m):
                continue
            for st in m.tree.body:
                self._walk_top(m, None, st)
        for u in self.units:
            self.unit_of[id(u.node)] = u
            if 'property' in u.decos or 'abstractproperty' in u.decos or u.kind == 'setter':
                self.props.setdefault(u.name, []).append(u)      # reached by attribute access, never by a call
            else:
                self.by_name.setdefault(u.name, []).append(u)
        called = set()
        for u in self.units:
            for c in u.calls:
                called.add(id(c.func))
        self.esc_refs = []          # (unit | None, node, [Unit])  functions referenced as values
        self.applied = {}           # id(Call) -> [(reference node, [Unit])]  map(self.f, xs): f is applied right here
        for u in self.units:
            immediate = {}
            for c in u.calls:
                f = c.func
                if (isinstance(f, ast.Name) and f.id in APPLYING_FUNCS and not u.is_local(f.id)) \
                        or (isinstance(f, ast.Attribute) and f.attr in ('sort',)):
                    for a in list(c.args) + [k.value for k in c.keywords]:
                        if isinstance(a, (ast.Attribute, ast.Name)):
                            immediate[id(a)] = c
            for n in ast.walk(u.node):
                if id(n) in called or not isinstance(n, (ast.Attribute, ast.Name)) or not isinstance(n.ctx, ast.Load):
                    continue
                t = self._func_reference(u.mod, u, n)
                if t:
                    if id(n) in immediate:
                        self.applied.setdefault(id(immediate[id(n)]), []).append((n, t))
                    else:
                        self.esc_refs.append((u, n, t))
        for m in self.idx.mods.values():
            if not self.in_scope(m):
                continue
            for n in self._module_level_nodes(m):
                if isinstance(n, (ast.Attribute, ast.Name)) and isinstance(n.ctx, ast.Load) and id(n) not in called:
                    t = self._func_reference(m, None, n)
                    if t:
                        self.esc_refs.append((None, n, t))
        seen = set()
        self.esc_units = []
        for u, n, t in self.esc_refs:
            for x in t:
                if id(x) not in seen:
                    seen.add(id(x))
                    self.esc_units.append(x)
        self.esc_names = {x.name for x in self.esc_units}

    def _func_reference(self, m, u, n):
        """units a non-call reference may denote: `Class.method`, `self.method`, a bare function name; an attribute of
        an unknown receiver denotes a method only when no property of that name exists"""
        if isinstance(n, ast.Name):
            if u is not None and u.is_local(n.id):
                return []
            res = self.resolve_name(m, u, n.id)
            if res is not None and res[0] == 'func':
                x = self.unit_of.get(id(res[2]))
                return [x] if x is not None else []
            return []
        units = self.by_name.get(n.attr)
        if not units:
            return []
        recv = n.value
        if u is not None and u.cls is not None and isinstance(recv, ast.Name) and recv.id == u.recv:
            rel = self.related(u.cls)
            if any(p.cls in rel for p in self.props.get(n.attr, [])):
                return []
            return [x for x in units if x.cls in rel]
        rc = None
        if isinstance(recv, ast.Name) and not (u is not None and u.is_local(recv.id)):
            res = self.resolve_name(m, u, recv.id)
            if res is not None and res[0] == 'class':
                rc = res[1]
            elif res is not None and res[0] == 'module':
                return [x for x in units if x.cls is None and x.mod is res[1]]
            elif res is None:
                return []
        elif isinstance(recv, ast.Attribute):
            rc = self.idx.resolve_class(m, recv)
        if rc is not None:
            rel = self.related(rc)
            return [x for x in units if x.cls in rel]
        if n.attr in self.props:
            return []
        return [x for x in units if x.cls is not None]

    def resolve_name(self, m, u, name):
        """idx.resolve with function-local imports taken into account"""
        if u is not None and name in u.limports:
            imp = u.limports[name]
            if imp[0] == 'mod':
                mm = self.idx.mods.get(imp[1])
                return ('module', mm) if mm is not None else None
            src = self.idx.mods.get(imp[1])
            if src is None:
                return None
            r = self.idx.resolve(src, imp[2])
            if r:
                return r
            sub = self.idx.mods.get(imp[1] + '.' + imp[2])
            return ('module', sub) if sub is not None else None
        return self.idx.resolve(m, name)

    def _module_level_nodes(self, m):
        """nodes of module-level / class-level statements that are not inside a function"""
        todo = list(m.tree.body)
        while todo:
            n = todo.pop()
            if isinstance(n, (ast.FunctionDef, ast.AsyncFunctionDef, ast.Lambda)):
                for d in n.decorator_list if not isinstance(n, ast.Lambda) else []:
                    todo.append(d)
                continue
            yield n
            todo.extend(ast.iter_child_nodes(n))

    def _walk_top(self, m, cls, st):
        if isinstance(st, (ast.FunctionDef, ast.AsyncFunctionDef)):
            u = Unit(m, cls, st)
            _Collect(u).run()
            u.trivial = not (u.binds or u.stores or u.calls or u.augs)
            self.units.append(u)
        elif isinstance(st, ast.ClassDef):
            c = m.classes.get(st.name) if cls is None else None
            if c is None or c.node is not st:
                # nested class or a class redefined later in the module: analyse its methods under a stand-in
                for k in self.idx.classes_by_name.get(st.name, []):
                    if k.node is st:
                        c = k
                        break
            if c is None:
                raise AnalysisError('%s:%d class %s is not in the source index (nested / conditional class)'
                                    % (m.rel, st.lineno, st.name))
            for s in st.body:
                self._walk_top(m, c, s)
        elif isinstance(st, (ast.If, ast.Try, ast.With)):
            for s in getattr(st, 'body', []) + getattr(st, 'orelse', []) + getattr(st, 'finalbody', []):
                self._walk_top(m, cls, s)
            for h in getattr(st, 'handlers', []):
                for s in h.body:
                    self._walk_top(m, cls, s)

    # ---- class relations
    def related(self, c):
        r = self._related.get(id(c))
        if r is None:
            if self._subs is None:
                self._subs = {}
                for k in self.idx.all_classes():
                    for b in self.idx.mro(k):
                        self._subs.setdefault(id(b), set()).add(k)
            r = set(self.idx.mro(c)) | self._subs.get(id(c), set())
            self._related[id(c)] = r
        return r

    def subclasses_incl(self, c):
        self.related(c)
        return self._subs.get(id(c), set()) | {c}

    # ---- names
    def global_root(self, m, name, u=None):
        if u is not None and name in u.limports:
            k = (m.name, name, id(u))
        else:
            k = (m.name, name)
            u = None
        r = self._gcache.get(k)
        if r is None:
            res = self.resolve_name(m, u, name)
            if res is None:
                imp = m.imports.get(name)
                if imp is not None:
                    r = frozenset(['g:external %s' % ('.'.join(imp[1:]) if imp[0] == 'from' else imp[1])])
                else:
                    r = EMPTY
            elif res[0] == 'class':
                r = frozenset(['g:class %s' % res[1].qual])
            elif res[0] == 'const':
                r = EMPTY if self.immutable_value(res[1], None, res[2]) else frozenset(['g:%s.%s' % (res[1].name, name)])
            elif res[0] == 'module':
                r = frozenset(['g:module %s' % res[1].name])
            elif res[0] == 'func':
                r = frozenset(['g:function %s.%s' % (res[1].name, name)])
            else:
                r = EMPTY
            self._gcache[k] = r
        return r

    # ---- which bindings of a local reach a site (straight-line kill; conservative everywhere else)
    def at(self, u, node):
        """evaluate the following R() calls at the position of `node` in u (None: flow-insensitively)"""
        self._at = u.where.get(id(node)) if node is not None else None
        self._at_unit = u if self._at is not None else None

    def reaching_roots(self, u, name, pos):
        line, stack = pos
        if ('deferred',) in stack:
            return None                 # code of a nested function / lambda runs later: every binding may reach it
        idxs = [i for i, b in enumerate(u.binds) if b[0] == name]
        if not idxs:
            return None
        dom = None
        for i in idxs:
            bl, bs = u.bind_pos[i]
            if ('deferred',) in bs or isinstance(u.binds[i][2], tuple):
                return None
            if bl < line and len(bs) <= len(stack) and stack[:len(bs)] == bs:
                if dom is None or bl >= u.bind_pos[dom][0]:
                    dom = i
        if dom is None:
            return None
        dl, ds = u.bind_pos[dom]
        if sum(1 for i in idxs if u.bind_pos[i][0] == dl) > 1:
            return None                 # several bindings on the dominating line (tuple targets, chained assignment)
        loops_after = [x for x in stack[len(ds):] if x[1] == 'loop']
        reach = [dom]
        for i in idxs:
            if i == dom:
                continue
            bl, bs = u.bind_pos[i]
            if dl < bl < line:
                reach.append(i)         # a later binding in a branch that does not dominate the site
            elif bl >= line and any(x in bs for x in loops_after):
                reach.append(i)         # carried round a loop that starts after the dominating binding
            elif bl == line:
                reach.append(i)
        saved = (self._at, self._at_unit)
        self._at = self._at_unit = None
        out = EMPTY
        for i in reach:
            nm, value, mode = u.binds[i]
            out = out | self._bind_roots(u, value, mode)
        self._at, self._at_unit = saved
        return out

    # ---- roots of an expression
    def R(self, u, e):
        if isinstance(e, ast.Name):
            if u.is_local(e.id):
                if self._at is not None and self._at_unit is u:
                    r = self.reaching_roots(u, e.id, self._at)
                    if r is not None:
                        return r
                return u.env.get(e.id, EMPTY)
            return self.global_root(u.mod, e.id, u)
        if isinstance(e, ast.Attribute):
            if e.attr == '__class__':
                return frozenset(['g:type(...)'])
            sc = self.static_class(u, e.value)
            if sc is not None:
                return self.class_attr_root(sc, e.attr)
            base = self.R(u, e.value)
            if u.cls is not None and isinstance(e.value, ast.Name) and e.value.id == u.recv and self.field_g:
                for k in self.idx.mro(u.cls):
                    g = self.field_g.get((k.qual, e.attr))
                    if g:
                        base = base | g
            return base
        if isinstance(e, ast.Subscript):
            if isinstance(e.slice, ast.Slice):
                return EMPTY
            return self.R(u, e.value)
        if isinstance(e, ast.Call):
            return self.R_call(u, e)
        if isinstance(e, ast.IfExp):
            return self.R(u, e.body) | self.R(u, e.orelse)
        if isinstance(e, ast.BoolOp):
            out = EMPTY
            for v in e.values:
                out = out | self.R(u, v)
            return out
        if isinstance(e, (ast.NamedExpr, ast.Starred, ast.Await)):
            return self.R(u, e.value)
        return EMPTY

    def static_class(self, u, e):
        """the class an expression names statically (`Name`, `module.Name`, `cls` in a classmethod), else None"""
        if isinstance(e, ast.Name):
            if u.is_local(e.id):
                if e.id == u.recv and u.is_classmethod:
                    return u.cls
                return None
            res = self.resolve_name(u.mod, u, e.id)
            return res[1] if res is not None and res[0] == 'class' else None
        if isinstance(e, ast.Attribute) and isinstance(e.value, ast.Name) and not u.is_local(e.value.id):
            res = self.resolve_name(u.mod, u, e.value.id)
            if res is not None and res[0] == 'module' and res[1] is not None:
                r2 = self.idx.resolve(res[1], e.attr)
                if r2 is not None and r2[0] == 'class':
                    return r2[1]
        return None

    def class_attr_root(self, c, attr):
        """`Class.attr`: immutable constants and functions carry no shared state; a container does"""
        key = ('ca', c.qual, attr)
        r = self._gcache.get(key)
        if r is None:
            name = attr
            k, node = self.idx.class_attr(c, attr)
            if node is None and attr.startswith('_' + c.name.lstrip('_') + '__'):
                name = attr[len('_' + c.name.lstrip('_')):]
                k, node = self.idx.class_attr(c, name)
            if node is not None:
                r = EMPTY if self.immutable_value(k.mod, k, node) else frozenset(['g:%s.%s' % (k.qual, name)])
            else:
                kk, fn = self.idx.find_method(c, attr)
                if fn is not None:
                    r = EMPTY
                elif any(isinstance(st, ast.AnnAssign) and isinstance(st.target, ast.Name) and st.target.id == attr
                         for q in self.idx.mro(c) for st in q.node.body):
                    r = frozenset(['g:%s.%s' % (c.qual, attr)])     # annotated, assigned elsewhere
                else:
                    r = frozenset(['g:%s.%s' % (c.qual, attr)])
            self._gcache[key] = r
        return r

    def immutable_value(self, m, c, e, depth=0):
        """is the value of a class-level / module-level definition immutable (so sharing it is harmless)?"""
        if depth > 6:
            return False
        if isinstance(e, (ast.Constant, ast.JoinedStr, ast.Lambda, ast.Compare)):
            return True
        if isinstance(e, (ast.BinOp,)):
            return self.immutable_value(m, c, e.left, depth + 1) and self.immutable_value(m, c, e.right, depth + 1)
        if isinstance(e, ast.UnaryOp):
            return self.immutable_value(m, c, e.operand, depth + 1)
        if isinstance(e, ast.BoolOp):
            return all(self.immutable_value(m, c, v, depth + 1) for v in e.values)
        if isinstance(e, ast.IfExp):
            return self.immutable_value(m, c, e.body, depth + 1) and self.immutable_value(m, c, e.orelse, depth + 1)
        if isinstance(e, ast.Tuple):
            return all(self.immutable_value(m, c, v, depth + 1) for v in e.elts)
        if isinstance(e, ast.Name):
            if c is not None and e.id in c.attrs:
                return self.immutable_value(m, c, c.attrs[e.id], depth + 1)
            res = self.idx.resolve(m, e.id)
            if res is None:
                return e.id in ('True', 'False', 'None')
            if res[0] in ('class', 'func', 'module'):
                return True
            return self.immutable_value(res[1], None, res[2], depth + 1)
        if isinstance(e, ast.Attribute):
            if isinstance(e.value, ast.Name):
                res = self.idx.resolve(m, e.value.id)
                if res is not None and res[0] == 'class':
                    k, node = self.idx.class_attr(res[1], e.attr)
                    if node is not None:
                        return self.immutable_value(k.mod, k, node, depth + 1)
                    return self.idx.find_method(res[1], e.attr)[1] is not None
                if res is None and e.value.id in m.imports:
                    return True       # constant / flag of an external module (regex.I, sys.maxsize)
            return False
        if isinstance(e, ast.Subscript):
            return self.immutable_value(m, c, e.value, depth + 1) and not isinstance(e.slice, ast.Slice) \
                and isinstance(e.value, (ast.Name, ast.Attribute)) and self._is_typing(m, e.value)
        if isinstance(e, ast.Call):
            f = e.func
            n = f.id if isinstance(f, ast.Name) else f.attr if isinstance(f, ast.Attribute) else None
            if n in IMMUTABLE_CTORS:
                return True
            if n in ('format', 'join', 'lower', 'upper', 'strip', 'replace', 'escape', 'compile', 'get_safe_reg_exp'):
                return True
            return False
        return False

    def _is_typing(self, m, e):
        n = e.id if isinstance(e, ast.Name) else e.attr
        return n in ('List', 'Dict', 'Set', 'Tuple', 'Optional', 'Union', 'Callable', 'Pattern', 'Type', 'Generic', 'Any')

    def R_call(self, u, e):
        f = e.func
        if isinstance(f, ast.Name) and not u.is_local(f.id):
            n = f.id
            if n == 'super':
                return frozenset([SELF]) if u.recv else EMPTY
            if n == 'type' and len(e.args) == 1:
                return frozenset(['g:type(...)'])
            if n in ('getattr',) and len(e.args) >= 2:
                return self.R(u, e.args[0])
            if n in PASS_FUNCS:
                out = EMPTY
                for a in e.args:
                    if not isinstance(a, ast.Lambda):
                        out = out | self.R(u, a)
                return out
        if isinstance(f, ast.Attribute):
            if f.attr in FRESH_METHODS and f.attr not in self.by_name:
                return EMPTY
            out = EMPTY
            if f.attr in PASS_METHODS:
                out = self.R(u, f.value)
        else:
            out = EMPTY
        ag, shift, recv = self.call_summary(u, e)
        if ag is None or not ag.n:
            return out
        if ag.ret_g:
            out = out | frozenset(ag.ret_g)
        if ag.ret_self and recv is not None:
            out = out | self.R(u, recv)
        if ag.ret_pos or ag.ret_kw or ag.ret_var_from is not None:
            for i, a in enumerate(e.args):
                j = i
                if isinstance(a, ast.Starred):
                    if ag.ret_pos and max(ag.ret_pos) >= j or ag.ret_var_from is not None:
                        out = out | self.R(u, a.value)
                elif j in ag.ret_pos or (ag.ret_var_from is not None and j >= ag.ret_var_from):
                    out = out | self.R(u, a)
            for k in e.keywords:
                if k.arg is None or k.arg in ag.ret_kw:
                    out = out | self.R(u, k.value)
        return out

    # ---- call resolution
    def candidates(self, u, call):
        """-> (list of Units, shift, receiver expr | None, how)
        shift = 1 when an instance method is called through its class (`Base.m(self, ..)`): argument 0 is the receiver;
        receiver None with how == 'ctor' is an instantiation (the receiver is the fresh object)"""
        key = id(call)
        r = self._cand.get(key)
        if r is not None:
            return r
        r = self._candidates(u, call)
        self._cand[key] = r
        return r

    def _candidates(self, u, call):
        f = call.func
        if isinstance(f, ast.Attribute):
            name, recv = f.attr, f.value
            units = self.by_name.get(name)
            is_self = isinstance(recv, ast.Name) and recv.id == u.recv and u.cls is not None
            is_super = isinstance(recv, ast.Call) and isinstance(recv.func, ast.Name) and recv.func.id == 'super'
            if is_self or is_super:
                if units:
                    rel = self.related(u.cls)
                    c = [x for x in units if x.cls is not None and x.cls in rel]
                    if is_super:
                        c = [x for x in c if x.cls is not u.cls] or c
                    if c:
                        return (c, 0, recv, 'hierarchy')
                if is_self:
                    return (self.esc_units, 0, None, 'callable attribute')   # self.attr(...) where attr holds a callable
                return ([], 0, recv, 'external')
            if not units:
                if name in ('__call__',):
                    return (self.esc_units, 0, None, 'callable')
                return ([], 0, recv, 'external')
            rc = None
            if isinstance(recv, ast.Name) and not u.is_local(recv.id):
                res = self.resolve_name(u.mod, u, recv.id)
                if res is not None and res[0] == 'class':
                    rc = res[1]
                elif res is not None and res[0] == 'module':
                    return ([x for x in units if x.cls is None and x.mod is res[1]], 0, None, 'module function')
                elif res is None and recv.id in u.mod.imports:
                    return ([], 0, recv, 'external')      # method of an external module / class
            elif isinstance(recv, ast.Attribute):
                rc = self.idx.resolve_class(u.mod, recv)
            if rc is not None:
                rel = self.related(rc)
                c = [x for x in units if x.cls is not None and x.cls in rel]
                inst = [x for x in c if x.recv is not None and not x.is_classmethod]
                if inst and len(inst) == len(c):
                    return (c, 1, None, 'class-qualified')
                return (c, 0, None, 'class-qualified')
            return ([x for x in units if x.cls is not None], 0, recv, 'by name')
        if isinstance(f, ast.Name):
            if u.is_local(f.id):
                return (self.esc_units, 0, None, 'callable variable')
            res = self.resolve_name(u.mod, u, f.id)
            if res is None:
                return ([], 0, None, 'external')
            if res[0] == 'func':
                x = self.unit_of.get(id(res[2]))
                return ([x] if x is not None else [], 0, None, 'function')
            if res[0] == 'class':
                out = []
                for nm in ('__init__', '__new__', '__post_init__'):
                    k, fn = self.idx.find_method(res[1], nm)
                    if fn is not None and id(fn) in self.unit_of:
                        out.append(self.unit_of[id(fn)])
                return (out, 0, None, 'ctor')
            if res[0] == 'const':
                return (self.esc_units, 0, None, 'callable constant')
            return ([], 0, None, 'external')
        # call of a call result / subscript: func = table[key](..)
        return (self.esc_units, 0, None, 'callable expression')

    def call_summary(self, u, call):
        cands, shift, recv, how = self.candidates(u, call)
        if not cands:
            return None, shift, recv
        f = call.func
        name = f.attr if isinstance(f, ast.Attribute) else f.id if isinstance(f, ast.Name) else '?'
        if how == 'by name':
            key = ('n', name)
        elif how.startswith('callable'):
            key = ('esc',)
        else:
            key = (how, name, tuple(sorted(id(c) for c in cands)) if len(cands) < 40 else id(cands), shift)
        ag = self._agg.get(key)
        if ag is None:
            ag = self._summ(cands, shift, how == 'ctor')
            self._agg[key] = ag
        return ag, shift, recv

    def _summ(self, cands, shift, ctor):
        ag = Agg()
        for c in cands:
            ag.n += 1
            if c.oneshot_ret:
                ag.oneshot = True
            for r in c.mut:
                if r == SELF:
                    if shift:
                        ag.mut_pos.add(0)
                    elif not ctor:
                        ag.mut_self = True
                else:
                    p = r[2:]
                    if p in c.formals:
                        ag.mut_pos.add(c.formals.index(p) + shift)
                        ag.mut_kw.add(p)
                    elif p in c.kwonly:
                        ag.mut_kw.add(p)
                    elif p == c.vararg:
                        v = len(c.formals) + shift
                        ag.mut_var_from = v if ag.mut_var_from is None else min(ag.mut_var_from, v)
                    elif p == c.kwarg:
                        ag.mut_anykw = True
            if ctor:
                continue
            for r in c.ret:
                if r == SELF:
                    if shift:
                        ag.ret_pos.add(0)
                    else:
                        ag.ret_self = True
                elif r.startswith('p:'):
                    p = r[2:]
                    if p in c.formals:
                        ag.ret_pos.add(c.formals.index(p) + shift)
                        ag.ret_kw.add(p)
                    elif p in c.kwonly:
                        ag.ret_kw.add(p)
                    elif p == c.vararg:
                        v = len(c.formals) + shift
                        ag.ret_var_from = v if ag.ret_var_from is None else min(ag.ret_var_from, v)
                else:
                    ag.ret_g.add(r)
        return ag

    # ---- per-unit transfer
    def _bind_roots(self, u, value, mode):
        if mode == 'fresh' or value is None:
            return EMPTY
        if isinstance(mode, tuple):          # lambda parameter: elements of the sibling arguments / the receiver
            call = value
            out = EMPTY
            for a in list(call.args) + [k.value for k in call.keywords]:
                if not isinstance(a, ast.Lambda):
                    out = out | self.R(u, a.value if isinstance(a, ast.Starred) else a)
            if isinstance(call.func, ast.Attribute):
                out = out | self.R(u, call.func.value)
            return out
        if mode == 'iter' and isinstance(value, (ast.List, ast.Tuple, ast.Set)):
            out = EMPTY
            for x in value.elts:
                out = out | self.R(u, x)
            return out
        if mode == 'elem' and isinstance(value, (ast.List, ast.Tuple)):
            out = EMPTY
            for x in value.elts:
                out = out | self.R(u, x)
            return out
        return self.R(u, value)

    def _oneshot(self, u, e):
        if isinstance(e, ast.GeneratorExp):
            return True
        if isinstance(e, ast.Name):
            return e.id in u.oneshot
        if isinstance(e, ast.IfExp):
            return self._oneshot(u, e.body) or self._oneshot(u, e.orelse)
        if isinstance(e, ast.Call):
            f = e.func
            if isinstance(f, ast.Name) and f.id in ONESHOT_FUNCS and f.id not in u.locals:
                return True
            if isinstance(f, (ast.Name, ast.Attribute)):
                ag, _, _ = self.call_summary(u, e)
                return bool(ag is not None and ag.oneshot)
        return False

    def transfer(self, u):
        """recompute env / mut / ret of one unit from the current summaries; True when a summary changed"""
        if u.trivial:
            ret = set()
            for e in u.returns:
                ret |= self.R(u, e)
            if u.memo:
                ret = {'g:memo cache of %s' % u.qual}
            ch = ret != u.ret
            u.ret = ret
            return ch
        for _ in range(6):
            changed = False
            for name, value, mode in u.binds:
                r = self._bind_roots(u, value, mode)
                if r:
                    old = u.env.get(name, EMPTY)
                    new = old | r
                    if new != old:
                        u.env[name] = new
                        changed = True
                if value is not None and not isinstance(mode, tuple) and mode in ('assign',) and name not in u.oneshot \
                        and self._oneshot(u, value):
                    u.oneshot.add(name)
                    changed = True
            if not changed:
                break
        mut = set()

        def eff(roots):
            for r in roots:
                if r == SELF or r.startswith('p:'):
                    mut.add(r)
        for t, stmt, kind, value in u.stores:
            self.at(u, stmt)
            eff(self.R(u, t.value))
        for name, stmt, value in u.augs:
            if name in u.gdecl:
                continue
            if self._container_display(value):
                self.at(u, stmt)
                eff(self.R(u, ast.Name(id=name, ctx=ast.Load())))
        for c in u.calls:
            self.at(u, c)
            self._call_effects(u, c, eff)
        self.at(u, None)
        ret = set()
        for e in u.returns:
            ret |= self.R(u, e)
        osr = any(self._oneshot(u, e) for e in u.returns)
        if u.memo:
            ret = {'g:memo cache of %s' % u.qual}
        ch = (mut != u.mut) or (ret != u.ret) or (osr != u.oneshot_ret)
        u.mut, u.ret, u.oneshot_ret = mut, ret, osr
        return ch

    @staticmethod
    def _container_display(e):
        if isinstance(e, (ast.List, ast.Set, ast.Dict, ast.ListComp, ast.SetComp, ast.DictComp)):
            return True
        return isinstance(e, ast.Call) and isinstance(e.func, ast.Name) and e.func.id in CONTAINER_CTORS | {'sorted'}

    def _call_effects(self, u, c, eff, record=None):
        """effects of one call: builtin mutator on the receiver, callee summaries on receiver / arguments"""
        f = c.func
        if isinstance(f, ast.Attribute):
            m = f.attr
            recv = f.value
            is_self = isinstance(recv, ast.Name) and recv.id == u.recv and u.cls is not None
            if m in MUTATORS and not (isinstance(recv, ast.Name) and recv.id in ('object', 'dict', 'list', 'type')
                                      and not u.is_local(recv.id)):
                cands = self.candidates(u, c)[0] if is_self else None
                if not (is_self and cands):
                    r = self.R(u, recv)
                    if r:
                        eff(r)
                        if record is not None:
                            record('mutator', r, c, recv, m, None)
            elif m in ('__setattr__', '__setitem__', '__delattr__', '__delitem__') and len(c.args) >= 2 \
                    and isinstance(recv, ast.Name) and recv.id in ('object', 'dict', 'list', 'type'):
                r = self.R(u, c.args[0])        # object.__setattr__(obj, name, value)
                if r:
                    eff(r)
                    if record is not None:
                        record('store', r, c, c.args[0], m, None)
            elif m in EXTERNAL_ARG_MUT and c.args:
                r = self.R(u, c.args[0])
                if r:
                    eff(r)
                    if record is not None:
                        record('mutator', r, c, c.args[0], m, None)
        elif isinstance(f, ast.Name):
            if f.id in EXTERNAL_ARG_MUT and c.args and f.id not in u.locals:
                r = self.R(u, c.args[0])
                if r:
                    eff(r)
                    if record is not None:
                        record('mutator', r, c, c.args[0], f.id, None)
            elif f.id in ('setattr', 'delattr') and len(c.args) >= 2 and f.id not in u.locals:
                r = self.R(u, c.args[0])
                if r:
                    eff(r)
                    if record is not None:
                        record('store', r, c, c.args[0], f.id, None)
        for ref, targets in self.applied.get(id(c), ()):
            ag = self._summ(targets, 0, False)
            if ag.mut_self and isinstance(ref, ast.Attribute):
                r = self.R(u, ref.value)
                if r:
                    eff(r)
                    if record is not None:
                        record('call', r, c, ref.value, ref.attr, 'self')
            if 0 in ag.mut_pos:
                for a in list(c.args) + [k.value for k in c.keywords]:
                    if a is ref or isinstance(a, ast.Lambda):
                        continue
                    r = self.R(u, a.value if isinstance(a, ast.Starred) else a)
                    if r:
                        eff(r)
                        if record is not None:
                            record('call', r, c, a, ref.attr if isinstance(ref, ast.Attribute) else ref.id, 'argument 0')
        ag, shift, recv = self.call_summary(u, c)
        if ag is None:
            return
        name = f.attr if isinstance(f, ast.Attribute) else f.id if isinstance(f, ast.Name) else '<call>'
        if ag.mut_self and recv is not None:
            r = self.R(u, recv)
            if r:
                eff(r)
                if record is not None:
                    record('call', r, c, recv, name, 'self')
        if ag.mut_pos or ag.mut_var_from is not None:
            for i, a in enumerate(c.args):
                if isinstance(a, ast.Starred):
                    hit = (ag.mut_pos and max(ag.mut_pos) >= i) or ag.mut_var_from is not None
                    a = a.value
                else:
                    hit = i in ag.mut_pos or (ag.mut_var_from is not None and i >= ag.mut_var_from)
                if hit:
                    r = self.R(u, a)
                    if r:
                        eff(r)
                        if record is not None:
                            record('call', r, c, a, name, 'argument %d' % i)
        if ag.mut_kw or ag.mut_anykw:
            for k in c.keywords:
                if k.arg is None or k.arg in ag.mut_kw or (ag.mut_anykw and k.arg not in ag.mut_kw):
                    if k.arg is not None and k.arg not in ag.mut_kw and not ag.mut_anykw:
                        continue
                    r = self.R(u, k.value)
                    if r:
                        eff(r)
                        if record is not None:
                            record('call', r, c, k.value, name, 'argument %s' % (k.arg or '**'))

    # ---- fixpoint
    def solve(self):
        for u in self.units:
            if u.recv:
                u.env[u.recv] = frozenset(['g:class %s' % u.cls.qual]) if u.is_classmethod else frozenset([SELF])
            for p in u.all_params:
                if p != u.recv:
                    u.env[p] = frozenset(['p:' + p])
        # fields that alias global tables: self.A = <expression rooted at a class / module name>
        for _round in range(2):
            fg = {}
            for u in self.units:
                if u.cls is None or not u.recv:
                    continue
                for t, stmt, kind, value in u.stores:
                    if kind == 'store' and value is not None and isinstance(t, ast.Attribute) \
                            and isinstance(t.value, ast.Name) and t.value.id == u.recv:
                        g = frozenset(r for r in self.R(u, value) if self._mutable_global(r))
                        if g:
                            fg.setdefault((u.cls.qual, t.attr), set()).update(g)
            self.field_g = {k: frozenset(v) for k, v in fg.items()}
        for rnd in range(40):
            self._agg = {}
            changed = 0
            for u in self.units:
                if self.transfer(u):
                    changed += 1
            dbg('round', rnd, 'changed', changed)
            if not changed:
                break
        else:
            raise AnalysisError('effect summaries did not reach a fixpoint in 40 rounds')
        self._agg = {}

    def _mutable_global(self, r):
        """g-roots that denote data (class / module constants), not classes, modules or functions themselves"""
        return r.startswith('g:') and not r.startswith(('g:class ', 'g:module ', 'g:function ', 'g:external ', 'g:type('))

    # ---- sites
    def nf(self, u, e):
        """normal form of an access path: locals are anonymous, the receiver is `self`"""
        if isinstance(e, ast.Name):
            if e.id == u.recv and u.cls is not None:
                return 'self'
            if u.is_local(e.id):
                if e.id in u.all_params:
                    return 'param:' + e.id
                return '<local>'
            return e.id
        if isinstance(e, ast.Attribute):
            return self.nf(u, e.value) + '.' + e.attr
        if isinstance(e, ast.Subscript):
            return self.nf(u, e.value) + '[]'
        if isinstance(e, ast.Call):
            return self.nf(u, e.func) + '()'
        if isinstance(e, ast.IfExp):
            return '(%s|%s)' % (self.nf(u, e.body), self.nf(u, e.orelse))
        return '<expr>'

    def sites(self, u):
        """[(kind, root, node, access path normal form, callee / mutator name, formal)] for every effect of u whose
        root is shared-capable ('self' or 'g:..'); parameter-rooted effects only propagate"""
        out = []

        def record(kind, roots, node, expr, name, formal):
            for r in sorted(roots):
                out.append((kind, r, node, self.nf(u, expr), name, formal, expr))
        for t, stmt, kind, value in u.stores:
            self.at(u, stmt)
            r = self.R(u, t.value)
            if r:
                k = {'store': 'store', 'aug': 'augmented store', 'del': 'del'}[kind]
                for x in sorted(r):
                    out.append((k, x, stmt, self.nf(u, t), None, None, t))
        for name, stmt, value in u.augs:
            if name in u.gdecl:
                out.append(('global rebinding', 'g:%s.%s' % (u.mod.name, name), stmt, name, None, None, None))
            elif self._container_display(value):
                self.at(u, stmt)
                for x in sorted(self.R(u, ast.Name(id=name, ctx=ast.Load()))):
                    out.append(('augmented store', x, stmt, '<local>', None, None, None))
        self.at(u, None)
        for name, value, mode in u.binds:
            if name in u.gdecl and mode in ('assign', 'elem', 'iter'):
                out.append(('global rebinding', 'g:%s.%s' % (u.mod.name, name), value, name, None, None, None))
        for c in u.calls:
            self.at(u, c)
            self._call_effects(u, c, lambda r: None, record)
        self.at(u, None)
        return out

    # ---- who may call: reverse call sites and the build-time-only predicate
    def build_reverse(self):
        """rev[id(h)] = [(caller unit, call node, how, shift, receiver expr | None)]"""
        rev = {}
        for k in self.units:
            for c in k.calls:
                cands, shift, recv, how = self.candidates(k, c)
                for h in cands:
                    rev.setdefault(id(h), []).append((k, c, how, shift, recv))
                for ref, targets in self.applied.get(id(c), ()):
                    for h in targets:
                        rev.setdefault(id(h), []).append((k, c, 'applied', 0, ref))
        # a function referenced as a value may be called wherever a callable is called: its reference site stands for it
        for (k, n, targets) in self.esc_refs:
            for h in targets:
                rev.setdefault(id(h), []).append((k, n, 'escapes', 0, n))
        # witnesses are taken from the first offending call site: prefer callers that live near the callee
        for u in self.units:
            lst = rev.get(id(u))
            if lst and len(lst) > 1:
                pkg = u.mod.name.split('.')[0]
                lst.sort(key=lambda s_: (s_[0] is None or s_[0].mod.name.split('.')[0] != pkg,
                                         s_[0] is None or s_[0].mod is not u.mod))
        self.rev = rev

    def all_call_sites(self, h):
        return [s for s in self.rev.get(id(h), []) if s[0] is not None and s[2] != 'escapes']

    def actual_roots(self, k, c, how, shift, recv, h, formal):
        """roots (in caller k) of the expression bound to `formal` of callee h at call c; None = a freshly built object"""
        if k is not None:
            self.at(k, c)
        try:
            return self._actual_roots(k, c, how, shift, recv, h, formal)
        finally:
            self._at = self._at_unit = None

    def _actual_roots(self, k, c, how, shift, recv, h, formal):
        if how == 'escapes':
            # a bound method stored as a value is called later, at an unknown time: its receiver counts as shared
            if formal == SELF and k is not None and isinstance(recv, ast.Attribute):
                r = self.R(k, recv.value)
                return frozenset('g:escaping bound method of ' + x if not x.startswith('g:') else x for x in r)
            return EMPTY
        if how == 'applied':
            ref = recv
            if formal == SELF:
                return self.R(k, ref.value) if isinstance(ref, ast.Attribute) else EMPTY
            out = EMPTY
            if h.formals and formal == 'p:' + h.formals[0]:
                for a in list(c.args) + [x.value for x in c.keywords]:
                    if a is not ref and not isinstance(a, ast.Lambda):
                        out = out | self.R(k, a.value if isinstance(a, ast.Starred) else a)
            return out
        if formal == SELF:
            if how == 'ctor':
                return None
            if shift:
                return self.R(k, c.args[0]) if c.args and not isinstance(c.args[0], ast.Starred) else EMPTY
            return self.R(k, recv) if recv is not None else EMPTY
        p = formal[2:]
        out = EMPTY
        star = [a for a in c.args if isinstance(a, ast.Starred)]
        for a in star:
            out = out | self.R(k, a.value)
        for x in c.keywords:
            if x.arg is None or x.arg == p or p == h.kwarg:
                out = out | self.R(k, x.value)
        if p in h.formals:
            i = h.formals.index(p) + shift
            if i < len(c.args) and not isinstance(c.args[i], ast.Starred):
                out = out | self.R(k, c.args[i])
        elif p == h.vararg:
            for a in c.args[len(h.formals) + shift:]:
                out = out | self.R(k, a.value if isinstance(a, ast.Starred) else a)
        return out

    def solve_build_only(self):
        """(h, formal) is *confined* iff at every call site the object bound to the formal is fresh, the object under
        construction, or itself confined in the caller (greatest fixpoint) - and at least one chain really starts at a
        constructor / fresh object (least fixpoint: a cycle of by-name calls with no such start is an entry point).
        Methods that implement the Model API are called by clients on the cached model: never confined."""
        self.build_reverse()
        self.why = {}
        forced = {}
        model = None
        m = self.idx.mods.get('recognizers_text.model')
        if m is not None:
            model = m.classes.get('Model')
        if model is not None:
            api = set(model.methods)
            for u in self.units:
                if u.cls is not None and u.cls is not model and model in self.idx.mro(u.cls) and u.name in api \
                        and SELF in u.mut and u.kind == 'plain':
                    forced[(id(u), SELF)] = 'implements Model.%s: clients call it on the model held in the process-wide ' \
                                            'cache' % u.name
        keys = [(u, f) for u in self.units for f in u.mut]
        for _outer in range(50):
            state = {}
            for u, f in keys:
                state[(id(u), f)] = (id(u), f) not in forced
            for k_, w in forced.items():
                self.why[k_] = w
            changed = True
            rounds = 0
            while changed:
                changed = False
                rounds += 1
                if rounds > 300:
                    raise AnalysisError('who-may-call predicate did not stabilise')
                for u, f in keys:
                    key = (id(u), f)
                    if not state[key]:
                        continue
                    if f == SELF and u.kind in ('ctor', 'setter', 'protocol'):
                        continue
                    sites = self.rev.get(id(u), [])
                    bad = None
                    if not sites and f == SELF:
                        bad = 'no call site in the analysed packages: an entry point invoked on a shared object'
                    for (k, c, how, shift, recv) in sites:
                        roots = self.actual_roots(k, c, how, shift, recv, u, f)
                        if roots is None:
                            continue
                        for t in roots:
                            if t.startswith('g:'):
                                bad = '%s (%s:%d) binds %s' % (k.qual if k else 'module level', k.mod.rel if k else '?',
                                                               c.lineno, t[2:])
                            elif t == SELF:
                                if k.kind in ('ctor', 'setter', 'protocol'):
                                    continue
                                if not state.get((id(k), SELF), False):
                                    bad = 'called from %s (%s:%d) on its own state; %s' % (
                                        k.qual, k.mod.rel, c.lineno, self.why.get((id(k), SELF), 'not build-time only'))
                            elif not state.get((id(k), t), True):
                                bad = 'called from %s (%s:%d) with its parameter %s; %s' % (
                                    k.qual, k.mod.rel, c.lineno, t[2:], self.why.get((id(k), t), ''))
                            if bad:
                                break
                        if bad:
                            break
                    if bad:
                        state[key] = False
                        self.why[key] = bad[:400]
                        changed = True
            # groundedness of the receiver chains
            grounded = set()
            changed = True
            while changed:
                changed = False
                for u, f in keys:
                    key = (id(u), f)
                    if key in grounded or not state[key]:
                        continue
                    if f == SELF and u.kind in ('ctor', 'setter', 'protocol'):
                        grounded.add(key)
                        changed = True
                        continue
                    for (k, c, how, shift, recv) in self.rev.get(id(u), []):
                        roots = self.actual_roots(k, c, how, shift, recv, u, f)
                        if roots is None or (not roots and k is not u):
                            grounded.add(key)       # a fresh / per-call object
                            break
                        if any((t == SELF and k.kind == 'ctor') or ((id(k), t) in grounded and k is not u)
                               for t in roots if not t.startswith('g:')):
                            grounded.add(key)
                            break
                    if key in grounded:
                        changed = True
            newly = [(u, f) for u, f in keys if f == SELF and u.kind == 'plain' and state[(id(u), f)]
                     and (id(u), f) not in grounded]
            if not newly:
                break
            for u, f in newly:
                forced[(id(u), f)] = 'no call chain from a constructor or a freshly built object reaches it: an entry ' \
                                     'point invoked on a shared object'
        else:
            raise AnalysisError('who-may-call predicate did not stabilise (grounding)')
        self.confined = state

    def solve_primary(self):
        """(h, p) is *primary* when h writes through its parameter p itself, or hands p on - as a plain argument - to a
        callee for which that formal is primary.  Effects that reach a parameter only because some callee writes *its own
        receiver* are not primary: they are judged once, at that callee's write site."""
        prim = set()
        todo = []
        for u in self.units:
            for f in u.mut:
                if f != SELF and _direct_param_effect(self, u, f[2:]):
                    prim.add((id(u), f))
                    todo.append((u, f))
        while todo:
            h, f = todo.pop()
            for (k, c, how, shift, recv) in self.rev.get(id(h), []):
                if k is None or how == 'escapes':
                    continue
                roots = self.actual_roots(k, c, how, shift, recv, h, f)
                for t in roots or ():
                    if t.startswith('p:') and (id(k), t) not in prim and t in k.mut:
                        prim.add((id(k), t))
                        todo.append((k, t))
        self.primary = prim

    def binds_primary(self, u, call, expr):
        """does some candidate callee of `call` have a primary effect on the formal that `expr` is bound to?"""
        cands, shift, recv, how = self.candidates(u, call)
        pools = [(cands, shift)]
        for ref, targets in self.applied.get(id(call), ()):
            pools.append((targets, None))
        for pool, sh in pools:
            for h in pool:
                for f in h.mut:
                    if f == SELF or (id(h), f) not in self.primary:
                        continue
                    p = f[2:]
                    if sh is None:
                        if h.formals and p == h.formals[0]:
                            return True
                        continue
                    if p in h.formals:
                        i = h.formals.index(p) + sh
                        if i < len(call.args) and (call.args[i] is expr or (isinstance(call.args[i], ast.Starred)
                                                                            and call.args[i].value is expr)):
                            return True
                    elif p == h.vararg:
                        if any(a is expr or (isinstance(a, ast.Starred) and a.value is expr)
                               for a in call.args[len(h.formals) + sh:]):
                            return True
                    if any(k.value is expr and (k.arg == p or k.arg is None) for k in call.keywords):
                        return True
                    if any(isinstance(a, ast.Starred) and a.value is expr for a in call.args):
                        return True
        return False

    def terminals(self, u, formal=SELF, limit=6):
        """where the call chains that reach (u, formal) start: constructors and freshly built objects"""
        out = set()
        seen = set()
        todo = [(u, formal)]
        while todo:
            h, f = todo.pop()
            if (id(h), f) in seen:
                continue
            seen.add((id(h), f))
            for (k, c, how, shift, recv) in self.rev.get(id(h), []):
                roots = self.actual_roots(k, c, how, shift, recv, h, f)
                if roots is None:
                    out.add('fresh %s built in %s' % (h.cls.name if h.cls else 'object', k.qual))
                    continue
                if not roots and f == SELF:
                    out.add('per-call object in %s' % k.qual)
                for t in roots:
                    if t == SELF and k.kind == 'ctor':
                        out.add('constructor %s' % k.qual)
                    elif t == SELF or t.startswith('p:'):
                        todo.append((k, t))
        return sorted(out)[:limit]

    # ---- value classes
    def solve_value_classes(self):
        """classes never instantiated at build time: their instances exist only inside one recognise call (any store of
        one into shared state is itself a C02.shared-write site)"""
        bt = set()
        todo = [u for u in self.units if u.kind == 'ctor']
        while todo:
            u = todo.pop()
            if id(u) in bt:
                continue
            bt.add(id(u))
            for c in u.calls:
                for h in self.candidates(u, c)[0]:
                    if id(h) not in bt:
                        todo.append(h)
                for ref, targets in self.applied.get(id(c), ()):
                    todo.extend(targets)
        built = set()

        def note(m, u, call):
            f = call.func
            c = None
            if isinstance(f, ast.Name):
                if u is not None and u.is_local(f.id):
                    return
                res = self.resolve_name(m, u, f.id)
                if res is not None and res[0] == 'class':
                    c = res[1]
            elif isinstance(f, ast.Attribute):
                c = self.idx.resolve_class(m, f)
            if c is not None:
                for k in self.idx.mro(c):
                    built.add(id(k))
        for u in self.units:
            if id(u) in bt:
                for c in u.calls:
                    note(u.mod, u, c)
            for d in u.defaults.values():
                for n in ast.walk(d):
                    if isinstance(n, ast.Call):
                        note(u.mod, None, n)
        for m in self.idx.mods.values():
            if self.in_scope(m):
                for n in self._module_level_nodes(m):
                    if isinstance(n, ast.Call):
                        note(m, None, n)
        self.build_time_units = bt
        self.built_classes = built
        built = set()
        self.instantiated = built
        for u in self.units:
            for c in u.calls:
                note(u.mod, u, c)
        self._vc = {}

    def is_value_class(self, c):
        if c is None:
            return False
        r = self._vc.get(id(c))
        if r is None:
            fam = self.subclasses_incl(c)
            api = any(k.name in ('Model', 'Recognizer', 'Extractor', 'Parser', 'DateTimeExtractor', 'DateTimeParser')
                      for f in fam for k in self.idx.mro(f))
            r = (not api) and any(id(k) in self.instantiated for k in fam) \
                and not any(id(k) in self.built_classes for k in fam)
            self._vc[id(c)] = r
        return r


# =====================================================================================================
# scope, fail-closed checks
# =====================================================================================================

def recogniser_scope(idx):
    """top-level packages reachable through imports from the modules that define Model / Recognizer subclasses"""
    Model = idx.mod('recognizers_text.model').classes.get('Model')
    Recognizer = idx.mod('recognizers_text.recognizer').classes.get('Recognizer')
    if Model is None or Recognizer is None:
        raise AnalysisError('anchor vanished: recognizers_text.model.Model / recognizers_text.recognizer.Recognizer')
    tops = {m.name.split('.')[0] for m in idx.mods.values()}
    seeds = set()
    for c in idx.all_classes():
        mro = idx.mro(c)
        if Model in mro or Recognizer in mro:
            seeds.add(c.mod.name.split('.')[0])
    for m in idx.mods.values():
        if any(n.startswith('recognize_') for n in m.funcs):
            seeds.add(m.name.split('.')[0])
    deps = {}
    for m in idx.mods.values():
        top = m.name.split('.')[0]
        for n in ast.walk(m.tree):
            if isinstance(n, ast.Import):
                for a in n.names:
                    t = a.name.split('.')[0]
                    if t in tops:
                        deps.setdefault(top, set()).add(t)
            elif isinstance(n, ast.ImportFrom) and n.level == 0 and n.module:
                t = n.module.split('.')[0]
                if t in tops:
                    deps.setdefault(top, set()).add(t)
    scope = set()
    todo = sorted(seeds)
    while todo:
        t = todo.pop()
        if t in scope:
            continue
        scope.add(t)
        todo.extend(deps.get(t, ()))
    if len(scope) < 5:
        raise AnalysisError('only %d packages reachable from the recognisers (%s) - anchor moved' % (len(scope), sorted(scope)))
    return scope


def check_dynamic(idx, scope):
    """the call resolution above is only sound without reflective dispatch: fail closed when it appears"""
    for m in idx.mods.values():
        if m.name.split('.')[0] not in scope:
            continue
        for n in ast.walk(m.tree):
            where = '%s:%d' % (m.rel, getattr(n, 'lineno', 0))
            if isinstance(n, ast.Call) and isinstance(n.func, ast.Name):
                f = n.func.id
                if f in DYNAMIC_CALLS:
                    raise AnalysisError('%s: %s() - reflective code is not understood by the effect analysis' % (where, f))
                if f in ('getattr', 'setattr', 'delattr') and len(n.args) >= 2 and not is_const_str(n.args[1]):
                    raise AnalysisError('%s: %s() with a computed attribute name - name-based call resolution is unsound here'
                                        % (where, f))
            elif isinstance(n, ast.Attribute) and n.attr in ('__dict__', '__globals__', '__code__', '__bases__', '__mro__',
                                                              '__subclasses__'):
                raise AnalysisError('%s: .%s access - reflective code is not understood by the effect analysis'
                                    % (where, n.attr))
            elif isinstance(n, (ast.FunctionDef, ast.AsyncFunctionDef)) and n.name in HOOKS:
                raise AnalysisError('%s: %s hook defined - attribute access is no longer a plain load / store'
                                    % (where, n.name))
            elif isinstance(n, (ast.Import, ast.ImportFrom)):
                names = [a.name for a in n.names] + ([n.module] if isinstance(n, ast.ImportFrom) and n.module else [])
                if any(x.split('.')[0] in ('importlib', 'ctypes', 'gc', 'inspect') for x in names if x):
                    raise AnalysisError('%s: import of a reflective module (%s)' % (where, ', '.join(x for x in names if x)))


# =====================================================================================================
# rules
# =====================================================================================================

R_WRITE = 'C02.shared-write'
R_PARAM = 'C02.param-mutation'
R_CACHE = 'C02.cache-key'
R_AMB = 'C02.ambient'
R_DEC = 'C02.decimal-context'
R_DECIMP = 'C02.decimal-import'
R_DEF = 'C02.mutable-default'
R_CLS = 'C02.class-mutable'
R_ONE = 'C02.one-shot'
R_DECO = 'C02.decorators'


def mutated_attr(kind, path):
    """`self.X` attribute whose *object* a self-rooted site mutates (None when the site only rebinds self.X)"""
    parts = path.replace('[]', '.[]').replace('()', '').split('.')
    if len(parts) < 2 or parts[0] != 'self':
        return None
    if kind in ('store', 'augmented store', 'del'):
        if len(parts) == 2 and kind == 'augmented store':
            return parts[1]
        return parts[1] if len(parts) > 2 else None
    return parts[1]


def cache_attrs(A):
    m = A.idx.mods.get('recognizers_text.model')
    if m is None or 'ModelFactory' not in m.classes:
        raise AnalysisError('anchor vanished: recognizers_text.model.ModelFactory')
    mf = m.classes['ModelFactory']
    names = [a for a, v in mf.attrs.items() if not A.immutable_value(m, mf, v)]
    return mf, names


def rule_shared(chk, A):
    mf, cnames = cache_attrs(A)
    cache_roots = {'g:%s.%s' % (mf.qual, a) for a in cnames}
    n_param = 0
    for u in A.units:
        # functions that rewrite their parameters: confined to per-call objects?
        for f in sorted(u.mut):
            if f != SELF and A.confined.get((id(u), f), True) and _direct_param_effect(A, u, f[2:]):
                n_param += 1
                chk.ok(R_PARAM, u.path, u.qual, 'parameter %s is only ever bound to per-call objects' % f[2:], u.node.lineno)
        seen_setter = False
        for kind, root, node, path, name, formal, expr in A.sites(u):
            if root.startswith('p:'):
                continue
            line = getattr(node, 'lineno', u.node.lineno)
            if root == SELF:
                if kind == 'call' and (formal == 'self' or not A.binds_primary(u, node, expr)):
                    continue            # x.m() where m writes its own receiver (directly or through what it was handed):
                    #                     judged at m's own write sites, whose who-may-call chain includes this call
                if u.kind in ('setter', 'protocol'):
                    if not seen_setter:
                        seen_setter = True
                        chk.exempt(R_WRITE, u.path, u.qual, 'property setter / item protocol: judged at every store that '
                                   'goes through it (a store through a shared receiver is a site of its own)',
                                   '%s %s' % (kind, path), line)
                    continue
                if u.kind == 'ctor':
                    continue            # the object under construction (class-level containers: C02.class-mutable)
                rule = R_PARAM if kind == 'call' else R_WRITE
                what = '%s %s' % (kind, path) if kind != 'call' else 'passes %s to %s() which mutates its %s' % (path, name, formal)
                if kind == 'mutator':
                    what = '%s.%s()' % (path, name)
                if A.is_value_class(u.cls):
                    chk.exempt(rule, u.path, u.qual, 'instances of %s are never built at construction time: a per-call '
                               'value object' % u.cls.name, what, line)
                elif A.confined.get((id(u), SELF), False):
                    chk.exempt(rule, u.path, u.qual, 'build-time only: every call chain starts at %s'
                               % '; '.join(A.terminals(u)), what, line)
                else:
                    chk.bad(rule, u.path, u.qual, what,
                            'shared state is written on the recognise path: %s in %s, reachable outside construction (%s)'
                            % (what, u.qual, A.why.get((id(u), SELF), 'not build-time only')), line)
            else:
                if kind == 'call' and formal == 'self' and any(
                        SELF in h.mut and not A.confined.get((id(h), SELF), False) and h.kind == 'plain'
                        for h in A.candidates(u, node)[0]):
                    continue            # reported at the callee's own write site
                if kind == 'call' and formal != 'self' and not A.binds_primary(u, node, expr):
                    continue
                what = '%s %s' % (kind, path) if kind != 'call' else 'passes %s to %s() which mutates its %s' % (path, name, formal)
                if kind == 'mutator':
                    what = '%s.%s()' % (path, name)
                if root in cache_roots and u.cls is mf:
                    chk.exempt(R_WRITE, u.path, u.qual, 'the process-wide model cache: governed by %s' % R_CACHE, what, line)
                    continue
                rule = R_PARAM if kind == 'call' else R_WRITE
                chk.bad(rule, u.path, u.qual, '%s [%s]' % (what, root[2:]),
                        'process-wide state %s is written by %s (%s): results depend on what ran before'
                        % (root[2:], u.qual, what), line)
    return n_param


def _direct_param_effect(A, u, p):
    root = 'p:' + p
    for t, stmt, kind, value in u.stores:
        if root in A.R(u, t.value):
            return True
    for c in u.calls:
        f = c.func
        if isinstance(f, ast.Attribute) and f.attr in MUTATORS and root in A.R(u, f.value):
            return True
    return False


def rule_cache(chk, A):
    """single writer, key = all parameters but the stored value, reader builds the same key, write follows a miss"""
    mf, cnames = cache_attrs(A)
    m = mf.mod
    if not cnames:
        raise AnalysisError('ModelFactory has no class-level cache container any more - C02.cache-key cannot anchor')
    roots = {'g:%s.%s' % (mf.qual, a) for a in cnames}
    writers, readers = [], []
    for u in A.units:
        if u.cls is not mf:
            continue
        for t, stmt, kind, value in u.stores:
            if A.R(u, t.value) & roots:
                writers.append((u, t, stmt, kind, value))
        for kind, root, node, path, name, formal, expr in A.sites(u):
            if root in roots and kind in ('mutator', 'call', 'global rebinding'):
                writers.append((u, expr, node, '%s %s%s' % (kind, path, '.%s()' % name if name else ''), None))
        for n in ast.walk(u.node):
            if isinstance(n, ast.Call) and isinstance(n.func, ast.Attribute) and n.func.attr in ('get', '__getitem__') \
                    and A.R(u, n.func.value) & roots and n.args:
                readers.append((u, n.args[0], n))
            elif isinstance(n, ast.Subscript) and isinstance(n.ctx, ast.Load) and A.R(u, n.value) & roots:
                readers.append((u, n.slice, n))
    if not writers:
        raise AnalysisError('no write to ModelFactory.%s found - cache idiom changed' % '/'.join(cnames))
    chk.judge(len({id(w[0]) for w in writers}) == 1 and len(writers) == 1, R_CACHE, m.path, 'ModelFactory cache',
              'writers: %s' % sorted({w[0].qual for w in writers}),
              'the model cache is written in %d places (%s): one guarded writer expected'
              % (len(writers), ', '.join('%s:%d' % (w[0].qual, w[2].lineno) for w in writers)), writers[0][2].lineno)

    def key_params(u, key_expr):
        """parameters of u that the key expression is built from (through one local binding)"""
        e = key_expr
        if isinstance(e, ast.Name) and u.is_local(e.id) and e.id not in u.all_params:
            vals = [v for (nm, v, mode) in u.binds if nm == e.id and v is not None]
            if len(vals) != 1:
                return None, 'the key variable %s is bound %d times' % (e.id, len(vals))
            e = vals[0]
        if isinstance(e, (ast.Constant, ast.Name)):
            return None, 'the key is a constant / an unanalysed name'
        used = sorted({n.id for n in ast.walk(e) if isinstance(n, ast.Name)} & set(u.formals))
        return used, None

    for u, t, stmt, kind, value in writers:
        if kind != 'store' or not isinstance(t, ast.Subscript):
            chk.bad(R_CACHE, m.path, u.qual, '%s of the cache' % kind,
                    'the cache is modified by something other than `cache[key] = model` (%s in %s): cached models can '
                    'disappear or be replaced depending on what ran before' % (kind, u.qual), stmt.lineno)
            continue
        used, err = key_params(u, t.slice)
        val_params = {n.id for n in ast.walk(value) if isinstance(n, ast.Name)} & set(u.formals) if value is not None else set()
        want = [p for p in u.formals if p not in val_params]
        if err:
            chk.bad(R_CACHE, m.path, u.qual + ' key', err, 'cache write: ' + err, stmt.lineno)
        else:
            missing = [p for p in want if p not in used]
            chk.judge(not missing and len(val_params) == 1, R_CACHE, m.path, u.qual + ' key',
                      'key built from %s; value from %s' % (sorted(set(used)), sorted(val_params)),
                      'the cache key leaves out %s: requests that differ only there are served the same cached model, so the '
                      'answer depends on which request came first' % (missing or 'nothing, but the stored value is not a '
                                                                      'single parameter'), stmt.lineno)
        # the write follows a miss: every caller looks the same triple up first and returns on a hit
        sites = A.rev.get(id(u), []) if hasattr(A, 'rev') else []
        callers = [(k, c) for (k, c, how, shift, recv) in A.all_call_sites(u)]
        if not callers:
            chk.bad(R_CACHE, m.path, u.qual + ' callers', 'no caller', 'the cache writer is never called', stmt.lineno)
        for k, c in callers:
            ok, detail = _guarded_by_miss(A, k, c, u, readers, val_params)
            chk.judge(ok, R_CACHE, k.path, '%s -> %s' % (k.qual, u.name), detail,
                      'the cache is written without a preceding lookup of the same key that returns on a hit (%s): a cached '
                      'model can be replaced while another caller is using it' % detail, c.lineno)
    for u, key, n in readers:
        used, err = key_params(u, key)
        if err:
            chk.bad(R_CACHE, m.path, u.qual + ' lookup key', err, 'cache lookup: ' + err, n.lineno)
        else:
            missing = [p for p in u.formals if p not in used]
            chk.judge(not missing, R_CACHE, m.path, u.qual + ' lookup key', 'key built from %s' % sorted(set(used)),
                      'the cache lookup key leaves out %s' % missing, n.lineno)
    if not readers:
        raise AnalysisError('no lookup in ModelFactory.%s found - cache idiom changed' % '/'.join(cnames))


def _guarded_by_miss(A, k, c, writer, readers, val_params):
    """in caller k: a call to a reader method with the same key arguments precedes c, bound to a local that is tested
    `is not None` with a return in the body"""
    reader_names = {r[0].name for r in readers}
    wargs = [ast.dump(a) for a in c.args]
    vpos = [i for i, p in enumerate(writer.formals) if p in val_params]
    key_args = [a for i, a in enumerate(wargs) if i not in vpos]
    for st in ast.walk(k.node):
        if isinstance(st, ast.Assign) and len(st.targets) == 1 and isinstance(st.targets[0], ast.Name) \
                and isinstance(st.value, ast.Call) and isinstance(st.value.func, ast.Attribute) \
                and st.value.func.attr in reader_names and st.lineno < c.lineno:
            rargs = [ast.dump(a) for a in st.value.args]
            if rargs != key_args:
                continue
            v = st.targets[0].id
            for i in ast.walk(k.node):
                if isinstance(i, ast.If) and st.lineno < i.lineno < c.lineno and _tests_not_none(i.test, v) \
                        and any(isinstance(x, ast.Return) for x in i.body):
                    return True, 'lookup %s(%s) tested before the write' % (st.value.func.attr, ', '.join(
                        ast.unparse(a) for a in st.value.args))
            return False, 'lookup result %s is not tested with an early return' % v
    return False, 'no lookup with arguments (%s) before the write' % ', '.join(ast.unparse(a) for i, a in enumerate(c.args)
                                                                               if i not in vpos)


def _tests_not_none(t, v):
    if isinstance(t, ast.Name):
        return t.id == v
    if isinstance(t, ast.Compare) and len(t.ops) == 1 and isinstance(t.left, ast.Name) and t.left.id == v \
            and isinstance(t.ops[0], (ast.IsNot, ast.NotEq)) and isinstance(t.comparators[0], ast.Constant) \
            and t.comparators[0].value is None:
        return True
    return False


# ---- C02-c ambient reads ---------------------------------------------------------------------------

AMBIENT_EXACT = {'datetime.datetime.now', 'datetime.datetime.today', 'datetime.datetime.utcnow', 'datetime.date.today',
                 'os.environ', 'os.getenv', 'os.urandom', 'os.getpid', 'os.getppid', 'os.getcwd', 'os.times', 'os.getlogin',
                 'os.cpu_count', 'uuid.uuid1', 'uuid.uuid4', 'socket.gethostname', 'getpass.getuser', 'sys.argv',
                 'locale.getlocale', 'locale.getdefaultlocale', 'locale.localeconv', 'locale.setlocale',
                 'threading.current_thread', 'threading.get_ident', 'threading.get_native_id', 'threading.local',
                 'threading.active_count', 'threading.main_thread', 'multiprocessing.current_process'}
AMBIENT_PREFIX = ('time.', 'random.', 'secrets.', 'platform.', 'tempfile.', 'numpy.random.')
AMBIENT_METHODS = {'now', 'today', 'utcnow'}
REFERENCE_FREE_PARSERS = ('duration_parser', 'time_parser')    # reviewed: their timex_str does not depend on the reference


def external_names(A, m):
    """local name -> dotted path in a module outside the analysed packages (`datetime` -> 'datetime.datetime')"""
    out = {}
    for name, imp in m.imports.items():
        modname = imp[1]
        if not modname or modname in A.idx.mods or modname.split('.')[0] in A.idx.top_packages:
            continue
        out[name] = modname if imp[0] == 'mod' else modname + '.' + imp[2]
    return out


def dotted(e, ext, shadow):
    if isinstance(e, ast.Name):
        if e.id in shadow:
            return None
        return ext.get(e.id)
    if isinstance(e, ast.Attribute):
        d = dotted(e.value, ext, shadow)
        return d + '.' + e.attr if d else None
    return None


def is_ambient_path(d):
    return d in AMBIENT_EXACT or d.startswith(AMBIENT_PREFIX) or d.startswith(('os.environ.', 'sys.argv.'))


def ambient_sites(A, m):
    """[(node, description, enclosing FunctionDef | None, parents)] for every ambient read in module m"""
    if not hasattr(A.idx, 'top_packages'):
        A.idx.top_packages = {x.name.split('.')[0] for x in A.idx.mods.values()}
    ext_module = external_names(A, m)
    parents = {}
    out = []

    def walk(n, fn):
        for ch in ast.iter_child_nodes(n):
            parents[id(ch)] = n
            walk(ch, ch if isinstance(ch, (ast.FunctionDef, ast.AsyncFunctionDef)) else fn)
    funcs = {}

    def enclosing(n):
        while id(n) in parents:
            n = parents[id(n)]
            if isinstance(n, (ast.FunctionDef, ast.AsyncFunctionDef)):
                return n
        return None
    walk(m.tree, None)
    claimed = set()
    for n in ast.walk(m.tree):
        if id(n) in claimed:
            continue
        fn = enclosing(n)
        u = A.unit_of.get(id(fn)) if fn is not None else None
        # default expressions are evaluated in the enclosing scope, at definition time
        shadow = set()
        if u is not None:
            shadow = {x for x in u.locals if x not in u.limports}
            local_ext = {}
            for nm, imp in u.limports.items():
                modname = imp[1]
                if modname and modname not in A.idx.mods and modname.split('.')[0] not in A.idx.top_packages:
                    local_ext[nm] = modname if imp[0] == 'mod' else modname + '.' + imp[2]
            if local_ext:
                ext = dict(ext_module, **local_ext)
            else:
                ext = ext_module
        else:
            ext = ext_module
        if isinstance(n, ast.Call):
            d = dotted(n.func, ext, shadow)
            if d and is_ambient_path(d):
                for x in ast.walk(n.func):
                    claimed.add(id(x))
                out.append((n, d + '()', fn))
                continue
            f = n.func
            if isinstance(f, ast.Attribute) and f.attr in AMBIENT_METHODS and f.attr not in A.by_name and len(n.args) <= 1:
                for x in ast.walk(f):
                    claimed.add(id(x))
                out.append((n, '.%s()' % f.attr, fn))
                continue
        elif isinstance(n, (ast.Attribute, ast.Name)) and isinstance(getattr(n, 'ctx', None), ast.Load):
            d = dotted(n, ext, shadow)
            if d and is_ambient_path(d):
                p = parents.get(id(n))
                if isinstance(p, ast.Attribute) and p.value is n:
                    continue            # prefix of a longer path: judged at the longer path
                if isinstance(p, ast.Call) and p.func is n:
                    continue
                out.append((n, d, fn))
    return out, parents


def _is_none_test(t, p):
    """test is true exactly when parameter p is None / falsy: `p is None`, `p == None`, `not p`"""
    if isinstance(t, ast.UnaryOp) and isinstance(t.op, ast.Not) and isinstance(t.operand, ast.Name) and t.operand.id == p:
        return True
    if isinstance(t, ast.Compare) and len(t.ops) == 1 and isinstance(t.left, ast.Name) and t.left.id == p \
            and isinstance(t.ops[0], (ast.Is, ast.Eq)) and isinstance(t.comparators[0], ast.Constant) \
            and t.comparators[0].value is None:
        return True
    return False


def _is_not_none_test(t, p):
    if isinstance(t, ast.Name) and t.id == p:
        return True
    if isinstance(t, ast.Compare) and len(t.ops) == 1 and isinstance(t.left, ast.Name) and t.left.id == p \
            and isinstance(t.ops[0], (ast.IsNot, ast.NotEq)) and isinstance(t.comparators[0], ast.Constant) \
            and t.comparators[0].value is None:
        return True
    return False


def classify_ambient(A, m, n, fn, parents):
    """-> (verdict, detail, reason)   verdict: 'ok' | 'exempt' | 'bad'"""
    u = A.unit_of.get(id(fn)) if fn is not None else None
    par = parents.get(id(n))
    params = u.all_params if u is not None else set()
    # A1  if p is None: p = <ambient>
    if isinstance(par, ast.Assign) and par.value is n and len(par.targets) == 1 and isinstance(par.targets[0], ast.Name) \
            and par.targets[0].id in params:
        p = par.targets[0].id
        g = parents.get(id(par))
        if isinstance(g, ast.If) and par in g.body and _is_none_test(g.test, p):
            return 'ok', 'defaulting of parameter %s' % p, ''
    # A2  <ambient> if p is None else p   |   p if p is not None else <ambient>   |   p or <ambient>
    if isinstance(par, ast.IfExp):
        if par.body is n and isinstance(par.orelse, ast.Name) and par.orelse.id in params \
                and _is_none_test(par.test, par.orelse.id):
            return 'ok', 'defaulting of parameter %s' % par.orelse.id, ''
        if par.orelse is n and isinstance(par.body, ast.Name) and par.body.id in params \
                and _is_not_none_test(par.test, par.body.id):
            return 'ok', 'defaulting of parameter %s' % par.body.id, ''
    if isinstance(par, ast.BoolOp) and isinstance(par.op, ast.Or) and len(par.values) == 2 and par.values[1] is n \
            and isinstance(par.values[0], ast.Name) and par.values[0].id in params:
        return 'ok', 'defaulting of parameter %s' % par.values[0].id, ''
    # B1  compared for equality only
    if isinstance(par, ast.Compare) and all(isinstance(o, (ast.Eq, ast.NotEq)) for o in par.ops):
        return 'exempt', 'operand of an equality comparison', \
            'the clock value is only compared for equality with another datetime: the outcome changes only when the two ' \
            'coincide to the microsecond'
    # B2  import-time default pair
    if u is not None:
        for p, d in u.defaults.items():
            if any(x is n for x in ast.walk(d)):
                return _default_pair(A, u, p)
    # B3  handed to a parser whose timex_str ignores the reference, result consumed through .timex_str only
    if isinstance(par, ast.Call) and n in par.args and isinstance(par.func, ast.Attribute) and par.func.attr == 'parse' \
            and isinstance(par.func.value, ast.Attribute) and par.func.value.attr in REFERENCE_FREE_PARSERS and u is not None:
        g = parents.get(id(par))
        if isinstance(g, ast.Assign) and len(g.targets) == 1 and isinstance(g.targets[0], ast.Name):
            v = g.targets[0].id
            nbind = sum(1 for (nm, val, mode) in u.binds if nm == v)
            uses = [x for x in ast.walk(u.node) if isinstance(x, ast.Name) and x.id == v and isinstance(x.ctx, ast.Load)]
            bad = [x for x in uses if not (isinstance(parents.get(id(x)), ast.Attribute)
                                           and parents[id(x)].attr == 'timex_str')]
            if nbind == 1 and uses and not bad:
                return 'exempt', 'reference of %s.parse, result read through .timex_str only' % par.func.value.attr, \
                    'the parse result is consumed only through .timex_str, which %s does not derive from the reference ' \
                    'date' % par.func.value.attr
            return 'bad', 'reference of %s.parse, result also used as %s' % (
                par.func.value.attr, sorted({type(parents.get(id(x))).__name__ for x in bad})), ''
    return 'bad', 'unguarded', ''


def _default_pair(A, u, p):
    """default arguments evaluated at import: accepted only when the ambient defaults meet solely in `(b - a).days` (a
    constant 0) or an equality test, and every call passes all of them or none"""
    amb = set()
    for q, d in u.defaults.items():
        for x in ast.walk(d):
            if isinstance(x, ast.Call) and isinstance(x.func, ast.Attribute) and x.func.attr in AMBIENT_METHODS:
                amb.add(q)
    parents = {}
    for x in ast.walk(u.node):
        for ch in ast.iter_child_nodes(x):
            parents[id(ch)] = x
    for x in ast.walk(u.node):
        if isinstance(x, ast.Name) and isinstance(x.ctx, ast.Load) and x.id in amb:
            par = parents.get(id(x))
            if isinstance(par, ast.BinOp) and isinstance(par.op, ast.Sub) and isinstance(par.left, ast.Name) \
                    and isinstance(par.right, ast.Name) and par.left.id in amb and par.right.id in amb \
                    and par.left.id != par.right.id:
                g = parents.get(id(par))
                if isinstance(g, ast.Attribute) and g.attr == 'days':
                    continue
            if isinstance(par, ast.Compare) and all(isinstance(o, (ast.Eq, ast.NotEq)) for o in par.ops):
                continue
            return 'bad', 'import-time default of %s used as %s' % (p, type(par).__name__), ''
    if len(amb) < 2:
        return 'bad', 'single import-time default %s' % p, ''
    for (k, c, how, shift, recv) in A.all_call_sites(u):
        if not isinstance(c, ast.Call):
            return 'bad', 'function escapes as a value', ''
        given = set()
        for i, a in enumerate(c.args):
            j = i - shift
            if 0 <= j < len(u.formals):
                given.add(u.formals[j])
        for kw in c.keywords:
            if kw.arg:
                given.add(kw.arg)
        if given & amb and not amb <= given:
            return 'bad', 'call in %s passes only %s of the import-time defaults %s' % (
                k.qual, sorted(given & amb), sorted(amb)), ''
    return 'exempt', 'import-time defaults %s meet only in a difference of days / an equality test' % sorted(amb), \
        'both defaults are taken microseconds apart at import: (b - a).days is the constant 0, and every caller passes ' \
        'both values or neither'


def rule_ambient(chk, A):
    per_module = {}
    wrappers = {}       # id(unit) -> description: `def _now(self): return datetime.now()` - judged where it is called
    for m in A.idx.mods.values():
        if not A.in_scope(m):
            continue
        if not any(k in m.src for k in ('now', 'today', 'time', 'random', 'environ', 'getenv', 'uuid', 'thread', 'secrets',
                                        'platform', 'locale', 'getpid', 'tempfile', 'socket', 'getpass', 'argv')):
            continue
        sites, parents = ambient_sites(A, m)
        per_module[m.name] = (m, sites, parents)
        for n, desc, fn in sites:
            u = A.unit_of.get(id(fn)) if fn is not None else None
            if u is None:
                continue
            body = [st for st in u.node.body if not (isinstance(st, ast.Expr) and isinstance(st.value, ast.Constant))]
            if len(body) == 1 and isinstance(body[0], ast.Return) and body[0].value is n and not u.defaults:
                wrappers[id(u)] = desc
    if wrappers:
        wnames = {u.name for u in A.units if id(u) in wrappers}
        for k in A.units:
            for c in k.calls:
                f = c.func
                nm = f.attr if isinstance(f, ast.Attribute) else f.id if isinstance(f, ast.Name) else None
                if nm not in wnames:
                    continue
                hit = [h for h in A.candidates(k, c)[0] if id(h) in wrappers]
                if not hit:
                    continue
                m = k.mod
                if m.name not in per_module:
                    per_module[m.name] = (m, [], None)
                mm, sites, parents = per_module[m.name]
                if parents is None:
                    parents = {}
                    for x in ast.walk(m.tree):
                        for ch in ast.iter_child_nodes(x):
                            parents[id(ch)] = x
                sites.append((c, '%s() [returns %s]' % (nm, wrappers[id(hit[0])]), k.node))
                per_module[m.name] = (mm, sites, parents)
    for mname in sorted(per_module):
        m, sites, parents = per_module[mname]
        for n, desc, fn in sites:
            wu = A.unit_of.get(id(fn)) if fn is not None else None
            if wu is not None and id(wu) in wrappers and isinstance(n, ast.Call) and any(
                    isinstance(st, ast.Return) and st.value is n for st in wu.node.body):
                chk.exempt(R_AMB, m.path, wu.qual, 'a one-line wrapper around the ambient read: judged at every call of '
                           '%s()' % wu.name, '%s: wrapper' % desc, n.lineno)
                continue
            u = A.unit_of.get(id(fn)) if fn is not None else None
            if u is None and fn is not None:
                # nested function: attribute to the outermost unit
                q = fn
                while u is None and id(q) in parents:
                    q = parents[id(q)]
                    if isinstance(q, (ast.FunctionDef, ast.AsyncFunctionDef)):
                        u = A.unit_of.get(id(q))
            construct = u.qual if u is not None else '<module %s>' % m.name
            v, detail, reason = classify_ambient(A, m, n, fn if u is None or u.node is fn else u.node, parents)
            detail = '%s: %s' % (desc, detail)
            if v == 'ok':
                chk.ok(R_AMB, m.path, construct, detail, n.lineno)
            elif v == 'exempt':
                chk.exempt(R_AMB, m.path, construct, reason, detail, n.lineno)
            else:
                chk.bad(R_AMB, m.path, construct, detail,
                        '%s is read in %s outside the `if reference is None: reference = datetime.now()` defaulting idiom: the '
                        'result depends on something other than (query, culture, options, reference)' % (desc, construct),
                        n.lineno)


# ---- C02-d decimal context -------------------------------------------------------------------------

ARITH = (ast.Add, ast.Sub, ast.Mult, ast.Div, ast.FloorDiv, ast.Mod, ast.Pow)
OPSYM = {ast.Add: '+', ast.Sub: '-', ast.Mult: '*', ast.Div: '/', ast.FloorDiv: '//', ast.Mod: '%', ast.Pow: '**'}
DEC_FUNCS = {'abs', 'round', 'sum', 'min', 'max', 'pow', 'divmod'}
DEC_CTX_METHODS = {'quantize', 'sqrt', 'normalize', 'exp', 'ln', 'log10', 'fma', 'to_integral', 'to_integral_value',
                   'to_integral_exact', 'remainder_near', 'scaleb', 'next_plus', 'next_minus', 'next_toward', 'logb'}


class DecimalAnalysis:
    def __init__(self, A):
        self.A = A
        self.ret = {}          # id(unit) -> bool : returns a Decimal
        self.names = {}        # id(unit) -> set of local names of Decimal kind
        self.units = [u for u in A.units if not u.trivial or u.returns]
        for u in A.units:
            ann = u.node.returns
            self.ret[id(u)] = bool(ann is not None and self._is_decimal_name(ann))
            self.names[id(u)] = set()
            for a in u.node.args.posonlyargs + u.node.args.args + u.node.args.kwonlyargs:
                if a.annotation is not None and self._is_decimal_name(a.annotation):
                    self.names[id(u)].add(a.arg)
        self.solve()

    @staticmethod
    def _is_decimal_name(e):
        return (isinstance(e, ast.Name) and e.id == 'Decimal') or (isinstance(e, ast.Attribute) and e.attr == 'Decimal')

    @staticmethod
    def is_getcontext(e):
        return isinstance(e, ast.Call) and ((isinstance(e.func, ast.Name) and e.func.id == 'getcontext')
                                            or (isinstance(e.func, ast.Attribute) and e.func.attr == 'getcontext'))

    def dk(self, u, e):
        """may the expression evaluate to a Decimal (or a container of Decimals)?"""
        if isinstance(e, ast.Name):
            return e.id in self.names[id(u)]
        if isinstance(e, ast.Call):
            f = e.func
            if self._is_decimal_name(f):
                return True
            if isinstance(f, ast.Attribute):
                if self.is_getcontext(f.value):
                    return f.attr not in ('copy', 'clear_flags', 'clear_traps')
                if (f.attr in ('pop', 'get', 'copy', '__getitem__') or f.attr in DEC_CTX_METHODS) and self.dk(u, f.value):
                    return True
            if isinstance(f, ast.Name) and f.id in DEC_FUNCS and not u.is_local(f.id):
                return any(self.dk(u, a) for a in e.args)
            if isinstance(f, (ast.Name, ast.Attribute)):
                cands, shift, recv, how = self.A.candidates(u, e)
                if how != 'ctor' and not how.startswith('callable'):
                    return any(self.ret.get(id(c), False) for c in cands)
            return False
        if isinstance(e, ast.BinOp):
            return isinstance(e.op, ARITH) and (self.dk(u, e.left) or self.dk(u, e.right))
        if isinstance(e, ast.UnaryOp):
            return isinstance(e.op, (ast.USub, ast.UAdd)) and self.dk(u, e.operand)
        if isinstance(e, ast.IfExp):
            return self.dk(u, e.body) or self.dk(u, e.orelse)
        if isinstance(e, ast.BoolOp):
            return any(self.dk(u, v) for v in e.values)
        if isinstance(e, ast.Subscript):
            return self.dk(u, e.value)
        if isinstance(e, (ast.NamedExpr, ast.Starred)):
            return self.dk(u, e.value)
        if isinstance(e, (ast.List, ast.Tuple, ast.Set)):
            return any(self.dk(u, x) for x in e.elts)
        return False

    def solve(self):
        for rnd in range(30):
            changed = False
            for u in self.units:
                names = self.names[id(u)]
                for _ in range(4):
                    grew = False
                    for name, value, mode in u.binds:
                        if value is None or isinstance(mode, tuple) or name in names:
                            continue
                        if self.dk(u, value):
                            names.add(name)
                            grew = True
                    for name, stmt, value in u.augs:
                        if name not in names and self.dk(u, value):
                            names.add(name)
                            grew = True
                    for c in u.calls:
                        f = c.func
                        if isinstance(f, ast.Attribute) and f.attr in ('append', 'extend', 'add', 'insert') \
                                and isinstance(f.value, ast.Name) and f.value.id not in names \
                                and any(self.dk(u, a) for a in c.args):
                            names.add(f.value.id)
                            grew = True
                    if not grew:
                        break
                    changed = True
                if not self.ret[id(u)] and any(self.dk(u, e) for e in u.returns):
                    self.ret[id(u)] = True
                    changed = True
            if not changed:
                return
        raise AnalysisError('Decimal kind inference did not reach a fixpoint')

    def kind_of(self, u, e):
        if isinstance(e, ast.Call):
            f = e.func
            if self._is_decimal_name(f):
                return 'Decimal(..)'
            if isinstance(f, ast.Attribute) and self.is_getcontext(f.value):
                return 'getcontext().%s(..)' % f.attr
            n = f.attr if isinstance(f, ast.Attribute) else f.id if isinstance(f, ast.Name) else '?'
            return '%s(..)' % n
        if isinstance(e, ast.Constant):
            return repr(e.value)
        if isinstance(e, ast.Name):
            return 'decimal' if e.id in self.names[id(u)] else 'value'
        if isinstance(e, ast.BinOp):
            return '(%s %s %s)' % (self.kind_of(u, e.left), OPSYM.get(type(e.op), '?'), self.kind_of(u, e.right))
        if isinstance(e, ast.UnaryOp):
            return '-%s' % self.kind_of(u, e.operand)
        return 'decimal' if self.dk(u, e) else 'value'


def explicit_context_nodes(u):
    """ids of the nodes that execute under `with localcontext(..)` with an explicit precision inside unit u"""
    inside = set()
    for w in ast.walk(u.node):
        if not isinstance(w, (ast.With, ast.AsyncWith)):
            continue
        for it in w.items:
            c = it.context_expr
            if not (isinstance(c, ast.Call) and ((isinstance(c.func, ast.Name) and c.func.id == 'localcontext')
                                                 or (isinstance(c.func, ast.Attribute) and c.func.attr == 'localcontext'))):
                continue
            explicit = bool(c.args) or any(k.arg == 'prec' for k in c.keywords)
            if explicit and c.args and DecimalAnalysis.is_getcontext(c.args[0]):
                explicit = False
            first_prec = None
            if not explicit and isinstance(it.optional_vars, ast.Name):
                v = it.optional_vars.id
                for st in w.body:
                    if isinstance(st, ast.Assign) and any(isinstance(t, ast.Attribute) and t.attr == 'prec'
                                                          and isinstance(t.value, ast.Name) and t.value.id == v
                                                          for t in st.targets):
                        first_prec = st
                        break
                    if not isinstance(st, (ast.Expr, ast.Pass)) or not isinstance(getattr(st, 'value', None), ast.Constant):
                        break           # the precision must be set before anything else runs in the block
            if explicit:
                for st in w.body:
                    for x in ast.walk(st):
                        inside.add(id(x))
            elif first_prec is not None:
                on = False
                for st in w.body:
                    if on:
                        for x in ast.walk(st):
                            inside.add(id(x))
                    if st is first_prec:
                        on = True
    return inside


def _resolve_decorator(A, u, d):
    """FunctionDef (in the analysed packages) a decorator call `@name(...)` / `@mod.name(...)` / `@name` denotes, else None"""
    f = d.func if isinstance(d, ast.Call) else d
    res = None
    if isinstance(f, ast.Name):
        res = A.idx.resolve(u.mod, f.id)
    elif isinstance(f, ast.Attribute) and isinstance(f.value, ast.Name):
        r0 = A.idx.resolve(u.mod, f.value.id)
        if r0 is not None and r0[0] == 'module' and r0[1] is not None:
            res = A.idx.resolve(r0[1], f.attr)
    if res is None or res[0] != 'func':
        return None
    return res[2]


def _is_localcontext_call(c):
    return isinstance(c, ast.Call) and ((isinstance(c.func, ast.Name) and c.func.id == 'localcontext')
                                        or (isinstance(c.func, ast.Attribute) and c.func.attr == 'localcontext'))


def _ambient_context_write(n, aliases=()):
    """statement that rewrites the calling thread's decimal context: `getcontext().x = ..`, `<alias of getcontext()>.x = ..`,
    `setcontext(..)` -> description, else None"""
    if isinstance(n, (ast.Assign, ast.AugAssign)):
        for t in (n.targets if isinstance(n, ast.Assign) else [n.target]):
            if isinstance(t, ast.Attribute):
                if DecimalAnalysis.is_getcontext(t.value):
                    return 'getcontext().%s = %s' % (t.attr, ast.unparse(n.value))
                if isinstance(t.value, ast.Name) and t.value.id in aliases:
                    return 'getcontext().%s = %s' % (t.attr, ast.unparse(n.value))
    elif isinstance(n, ast.Expr) and isinstance(n.value, ast.Call):
        f = n.value.func
        if (isinstance(f, ast.Name) and f.id == 'setcontext') or (isinstance(f, ast.Attribute) and f.attr == 'setcontext'):
            return 'setcontext(..)'
    return None


def _context_aliases(fn):
    """local names bound to the thread context object: `ctx = getcontext()`"""
    out = set()
    for n in ast.walk(fn):
        if isinstance(n, ast.Assign) and DecimalAnalysis.is_getcontext(n.value):
            for t in n.targets:
                if isinstance(t, ast.Name):
                    out.add(t.id)
    return out


def _own_nodes(fn):
    """nodes of fn's body that are not inside a nested function / lambda"""
    todo = list(fn.body)
    while todo:
        n = todo.pop()
        yield n
        for ch in ast.iter_child_nodes(n):
            if not isinstance(ch, (ast.FunctionDef, ast.AsyncFunctionDef, ast.Lambda)):
                todo.append(ch)


def analyse_decorator(fn):
    """read the definition of a decorator / decorator factory defined in the analysed packages (on every run).
    -> (kind, scoped statement ids, description)
      'context'     - 'scoping': the wrapper it returns establishes the decimal context around each call and calls the
                      wrapped function inside it:  with localcontext() as c: c.prec = <factory argument>; .. f(..)
                                                   with localcontext(<explicit context>) / localcontext(prec=..): .. f(..)
                                                   old = getcontext().prec; getcontext().prec = <arg>; try: .. f(..)
                                                   finally: getcontext().prec = old
      'import-time' - the factory / decorator body (outside any returned wrapper) rewrites ambient state: it runs once, when
                      the decorator is applied, on the importing thread only
      'wrapper'     - a wrapper calls the function; nothing keeps state; no context is established
      'identity'    - the function is handed back unchanged
      None          - any other shape: the caller fails closed"""
    outer_params = {a.arg for a in fn.args.posonlyargs + fn.args.args + fn.args.kwonlyargs}
    for x in (fn.args.vararg, fn.args.kwarg):
        if x is not None:
            outer_params.add(x.arg)
    nested = [n for n in ast.walk(fn) if isinstance(n, (ast.FunctionDef, ast.AsyncFunctionDef)) and n is not fn]
    fparams = set()
    for n in [fn] + nested:
        for a in n.args.posonlyargs + n.args.args:
            fparams.add(a.arg)

    def calls_wrapped(node):
        return any(isinstance(x, ast.Call) and isinstance(x.func, ast.Name) and x.func.id in fparams
                   for x in ast.walk(node))
    # wrappers: the (innermost) nested functions whose own body contains the call of the wrapped function
    wrappers = [w for w in nested if any(
        isinstance(x, ast.Call) and isinstance(x.func, ast.Name) and x.func.id in fparams for x in _own_nodes(w))]
    # ---- ambient writes outside every wrapper: executed when the decorator is applied
    for holder in [fn] + [n for n in nested if n not in wrappers]:
        aliases = _context_aliases(holder)
        for x in _own_nodes(holder):
            if isinstance(x, ast.Global):
                return 'import-time', set(), 'rebinds module globals %s when the decorator is applied' % ', '.join(x.names)
            w = _ambient_context_write(x, aliases)
            if w:
                return 'import-time', set(), '`%s` runs once, when the decorator is applied (line %d)' % (w, x.lineno)
    # ---- anything that keeps state between calls (closure memo, nonlocal counters) is an unknown shape
    def stateful():
        with_vars = {it.optional_vars.id for w in ast.walk(fn) if isinstance(w, ast.With) for it in w.items
                     if isinstance(it.optional_vars, ast.Name)}
        aliases = set()
        for w in wrappers:
            aliases |= _context_aliases(w)
        for x in ast.walk(fn):
            if isinstance(x, (ast.Nonlocal, ast.Global)):
                return True
            if isinstance(x, (ast.Assign, ast.AugAssign, ast.Delete)):
                for t in (x.targets if not isinstance(x, ast.AugAssign) else [x.target]):
                    if isinstance(t, (ast.Attribute, ast.Subscript)):
                        base = t
                        while isinstance(base, (ast.Attribute, ast.Subscript)):
                            base = base.value
                        if DecimalAnalysis.is_getcontext(base) or (isinstance(base, ast.Name) and base.id in aliases):
                            continue        # a thread-context write: scoped (verified below) or reported by the rule
                        if not (isinstance(base, ast.Name) and base.id in with_vars):
                            return True
            elif isinstance(x, ast.Call) and isinstance(x.func, ast.Attribute) and x.func.attr in MUTATORS \
                    and isinstance(x.func.value, ast.Name):
                return True
        return False
    if wrappers and stateful():
        return None, set(), ''
    # ---- scoping wrappers
    scoped = set()
    for w in wrappers:
        aliases = _context_aliases(w)
        # (a) / (b) with localcontext(..)
        for wnode in ast.walk(w):
            if not isinstance(wnode, ast.With):
                continue
            for it in wnode.items:
                c = it.context_expr
                if not _is_localcontext_call(c):
                    continue
                explicit = (bool(c.args) and not DecimalAnalysis.is_getcontext(c.args[0])) \
                    or any(k.arg == 'prec' for k in c.keywords)
                start = 0
                if not explicit:
                    if not isinstance(it.optional_vars, ast.Name):
                        continue
                    v = it.optional_vars.id
                    st = wnode.body[0] if wnode.body else None
                    if not (isinstance(st, ast.Assign) and any(
                            isinstance(t, ast.Attribute) and t.attr == 'prec' and isinstance(t.value, ast.Name)
                            and t.value.id == v for t in st.targets)
                            and any(isinstance(x, ast.Name) and x.id in outer_params for x in ast.walk(st.value))):
                        continue        # the precision must be the first thing set in the block, from the arguments
                    start = 1
                if any(calls_wrapped(st) for st in wnode.body[start:]):
                    return 'context', scoped, 'with localcontext()'
        # (c) save / set / try .. finally restore
        body = list(w.body)
        for i, st in enumerate(body):
            if not isinstance(st, ast.Try) or not st.finalbody or not any(calls_wrapped(x) for x in st.body):
                continue
            saved = {}      # name -> attribute saved from the context
            sets = []
            for pre in body[:i]:
                if isinstance(pre, ast.Assign) and len(pre.targets) == 1 and isinstance(pre.targets[0], ast.Name) \
                        and isinstance(pre.value, ast.Attribute) and (
                            DecimalAnalysis.is_getcontext(pre.value.value)
                            or (isinstance(pre.value.value, ast.Name) and pre.value.value.id in aliases)):
                    saved[pre.targets[0].id] = pre.value.attr
                elif _ambient_context_write(pre, aliases):
                    sets.append(pre)
            lead = []
            for x in st.body:
                if _ambient_context_write(x, aliases):
                    lead.append(x)
                else:
                    break
            sets += lead
            restores = [x for x in st.finalbody if _ambient_context_write(x, aliases)]
            ok_set = [x for x in sets if isinstance(x, ast.Assign) and x.targets[0].attr == 'prec'
                      and any(isinstance(y, ast.Name) and y.id in outer_params for y in ast.walk(x.value))]
            ok_restore = [x for x in restores if isinstance(x, ast.Assign) and isinstance(x.value, ast.Name)
                          and saved.get(x.value.id) == x.targets[0].attr]
            if ok_set and ok_restore and {x.targets[0].attr for x in sets if isinstance(x, ast.Assign)} \
                    <= {x.targets[0].attr for x in ok_restore}:
                for x in sets + restores:
                    scoped.add(id(x))
                return 'context', scoped, 'save / set / try-finally restore'
    if wrappers:
        return 'wrapper', set(), 'a plain wrapper around the call'
    # ---- identity: every non-wrapper function hands its parameter / the inner decorator back, nothing else happens
    def returns_only(n, names):
        body = [st for st in n.body if not (isinstance(st, ast.Expr) and isinstance(st.value, ast.Constant))
                and not isinstance(st, (ast.FunctionDef, ast.Pass))]
        return len(body) == 1 and isinstance(body[0], ast.Return) and isinstance(body[0].value, ast.Name) \
            and body[0].value.id in names
    if not nested and len(fn.args.args) == 1 and returns_only(fn, {fn.args.args[0].arg}):
        return 'identity', set(), 'hands the function back unchanged'
    if len(nested) == 1 and len(nested[0].args.args) == 1 and returns_only(nested[0], {nested[0].args.args[0].arg}) \
            and returns_only(fn, {nested[0].name}):
        return 'identity', set(), 'hands the function back unchanged'
    return None, set(), ''


def decorator_definition_kind(fn):
    return analyse_decorator(fn)[0]


class _NotConstant(Exception):
    pass


def const_value(A, m, c, e, depth=0):
    """evaluate a constant expression through the index without executing anything: literals, module-level names (also
    through imports and star chains), class attributes (`Cls.X`, `module.X`, names of the enclosing class body), simple
    arithmetic, int()/float()/len() of such.  Raises _NotConstant when the value cannot be determined."""
    if depth > 12:
        raise _NotConstant('definition chain too deep')
    if isinstance(e, ast.Constant):
        return e.value
    if isinstance(e, ast.Name):
        if c is not None and e.id in c.attrs:
            return const_value(A, c.mod, c, c.attrs[e.id], depth + 1)
        res = A.idx.resolve(m, e.id)
        if res is None or res[0] != 'const':
            raise _NotConstant('%s is not a module-level constant' % e.id)
        src = res[1]
        # bindings at module level only: a decorator argument is evaluated at import; a function that rebinds the name
        # later (`global X; X = ..`) is a C02.shared-write site of its own
        n_assign = sum(1 for st in A._module_level_nodes(src) if isinstance(st, (ast.Assign, ast.AugAssign, ast.AnnAssign))
                       for t in (st.targets if isinstance(st, ast.Assign) else [st.target])
                       if isinstance(t, ast.Name) and t.id == e.id
                       and not (isinstance(st, ast.AnnAssign) and st.value is None))
        if n_assign != 1:
            raise _NotConstant('%s is bound %d times in %s' % (e.id, n_assign, src.rel))
        return const_value(A, src, None, res[2], depth + 1)
    if isinstance(e, ast.Attribute) and isinstance(e.value, ast.Name):
        res = A.idx.resolve(m, e.value.id)
        if res is not None and res[0] == 'class':
            k, node = A.idx.class_attr(res[1], e.attr)
            if node is None:
                raise _NotConstant('%s.%s is not a class-level definition' % (e.value.id, e.attr))
            return const_value(A, k.mod, k, node, depth + 1)
        if res is not None and res[0] == 'module' and res[1] is not None:
            return const_value(A, res[1], None, ast.Name(id=e.attr, ctx=ast.Load()), depth + 1)
        raise _NotConstant('%s is not a class or module of the analysed packages' % e.value.id)
    if isinstance(e, ast.UnaryOp) and isinstance(e.op, (ast.USub, ast.UAdd)):
        v = const_value(A, m, c, e.operand, depth + 1)
        if isinstance(v, (int, float)) and not isinstance(v, bool):
            return -v if isinstance(e.op, ast.USub) else v
        raise _NotConstant('unary operator on %r' % (v,))
    if isinstance(e, ast.BinOp) and isinstance(e.op, (ast.Add, ast.Sub, ast.Mult, ast.FloorDiv, ast.Mod, ast.Pow, ast.Div)):
        x = const_value(A, m, c, e.left, depth + 1)
        y = const_value(A, m, c, e.right, depth + 1)
        if not all(isinstance(v, (int, float)) and not isinstance(v, bool) for v in (x, y)):
            raise _NotConstant('arithmetic on %r and %r' % (x, y))
        try:
            if isinstance(e.op, ast.Add):
                return x + y
            if isinstance(e.op, ast.Sub):
                return x - y
            if isinstance(e.op, ast.Mult):
                return x * y
            if isinstance(e.op, ast.FloorDiv):
                return x // y
            if isinstance(e.op, ast.Mod):
                return x % y
            if isinstance(e.op, ast.Div):
                return x / y
            if abs(y) <= 64 and abs(x) <= 10 ** 6:
                return x ** y
        except (ZeroDivisionError, OverflowError) as ex:
            raise _NotConstant(str(ex))
        raise _NotConstant('power too large')
    if isinstance(e, ast.Call) and isinstance(e.func, ast.Name) and e.func.id in ('int', 'float', 'len', 'abs') \
            and len(e.args) == 1 and not e.keywords:
        v = const_value(A, m, c, e.args[0], depth + 1)
        try:
            return {'int': int, 'float': float, 'len': len, 'abs': abs}[e.func.id](v)
        except (TypeError, ValueError) as ex:
            raise _NotConstant(str(ex))
    raise _NotConstant('%s expression' % type(e).__name__)


def scoping_decorator_state(A, u):
    """-> (description | None, problem | None) for the scoping (context) decorators on u.
    description: '@precision(prec=15)' - the call runs under an explicit context of that precision;
    problem: the decorator is a scoping one but the precision it is given evaluates to something a Decimal context
    cannot take (non-int / < 1): every decorated call raises, no context is ever established."""
    for d in u.node.decorator_list:
        if not isinstance(d, ast.Call):
            continue
        fn = _resolve_decorator(A, u, d)
        if fn is None or decorator_definition_kind(fn) != 'context':
            continue
        prec = [k.value for k in d.keywords if k.arg == 'prec']
        if not prec:
            raise AnalysisError('%s:%d decorator %s scopes a Decimal context but is given no `prec=` argument'
                                % (u.mod.rel, d.lineno, ast.unparse(d)))
        try:
            v = const_value(A, u.mod, u.cls, prec[0])
        except _NotConstant as ex:
            raise AnalysisError('%s:%d decorator %s scopes a Decimal context but its precision argument cannot be evaluated '
                                'as a constant expression (%s)' % (u.mod.rel, d.lineno, ast.unparse(d), ex))
        if isinstance(v, int) and not isinstance(v, bool) and v >= 1:
            return '@%s(prec=%d)' % (fn.name, v), None
        return None, 'its decorator %s evaluates the precision to %r, which a Decimal context rejects (valid: an int >= 1): ' \
                     'every decorated call raises instead of computing under a context' % (ast.unparse(d), v)
    return None, None


def context_decorator(A, u):
    """`@precision(prec=N)`: the decorator resolves to a definition in the analysed packages that - checked on every run -
    scopes the decimal context around the decorated call (see analyse_decorator), and N evaluates (constant expression
    through the index) to a positive int -> description, else None (no context: what it decorates is uncovered)"""
    return scoping_decorator_state(A, u)[0]


def rule_decimal(chk, A):
    D = DecimalAnalysis(A)
    sites = {}          # id(unit) -> [(node, detail)]
    for u in A.units:
        if u.trivial:
            continue
        out = []
        for n in ast.walk(u.node):
            if isinstance(n, ast.BinOp) and isinstance(n.op, ARITH) and (D.dk(u, n.left) or D.dk(u, n.right)):
                out.append((n, 'Decimal arithmetic %s' % D.kind_of(u, n)))
            elif isinstance(n, ast.AugAssign) and isinstance(n.op, ARITH) and (
                    D.dk(u, n.value) or (isinstance(n.target, ast.Name) and n.target.id in D.names[id(u)])):
                out.append((n, 'Decimal arithmetic decimal %s= %s' % (OPSYM.get(type(n.op), '?'), D.kind_of(u, n.value))))
            elif isinstance(n, ast.UnaryOp) and isinstance(n.op, (ast.USub, ast.UAdd)) and D.dk(u, n.operand):
                out.append((n, 'Decimal arithmetic -%s' % D.kind_of(u, n.operand)))
            elif isinstance(n, ast.Call):
                f = n.func
                if isinstance(f, ast.Attribute) and D.is_getcontext(f.value):
                    out.append((n, 'thread context operation getcontext().%s(..)' % f.attr))
                elif isinstance(f, ast.Attribute) and f.attr in DEC_CTX_METHODS and D.dk(u, f.value):
                    out.append((n, 'Decimal method .%s(..)' % f.attr))
                elif isinstance(f, ast.Name) and f.id in ('round', 'sum', 'pow', 'divmod') and not u.is_local(f.id) \
                        and any(D.dk(u, a) for a in n.args):
                    out.append((n, 'Decimal arithmetic %s(..)' % f.id))
        if out:
            sites[id(u)] = out
    # thread-context writes: getcontext().prec = .. / setcontext(..)
    writes = []
    for m in A.idx.mods.values():
        if not A.in_scope(m) or ('getcontext' not in m.src and 'setcontext' not in m.src):
            continue
        parents = {}
        for x in ast.walk(m.tree):
            for ch in ast.iter_child_nodes(x):
                parents[id(ch)] = x
        scoped_ids = set()
        alias_of = {}
        for f0 in ast.walk(m.tree):
            if isinstance(f0, (ast.FunctionDef, ast.AsyncFunctionDef)):
                al = _context_aliases(f0)
                if al:
                    alias_of[id(f0)] = al
                if f0 in m.tree.body:
                    scoped_ids |= analyse_decorator(f0)[1]
        for n in ast.walk(m.tree):
            if not isinstance(n, (ast.Assign, ast.AugAssign, ast.Expr)) or id(n) in scoped_ids:
                continue
            q = n
            fn = None
            while id(q) in parents:
                q = parents[id(q)]
                if isinstance(q, (ast.FunctionDef, ast.AsyncFunctionDef)):
                    fn = q
                    break
            hit = _ambient_context_write(n, alias_of.get(id(fn), ()) if fn is not None else ())
            if hit:
                writes.append((m, n, hit, fn))
    for m, n, hit, fn in writes:
        if fn is None:
            chk.bad(R_DECIMP, m.path, '<module %s>' % m.name, hit,
                    'the decimal context is thread-local: `%s` at import configures only the importing thread, so every Decimal '
                    'operation outside an explicit context runs with a different precision on other threads' % hit, n.lineno)
        else:
            u = A.unit_of.get(id(fn))
            chk.bad(R_DEC, m.path, u.qual if u else fn.name, 'thread context write %s' % hit,
                    '`%s` rewrites the calling thread\'s decimal context from inside %s: the setting leaks into later calls on '
                    'this thread only' % (hit, fn.name), n.lineno)
    # coverage: explicit context in the function, or in every caller (greatest fixpoint), and some chain really starts
    # under an explicit context (least fixpoint: by-name cycles with no covered start are entry points)
    need = [u for u in A.units if id(u) in sites]
    deco = {}
    inside = {}

    def info(u):
        if id(u) not in deco:
            deco[id(u)] = context_decorator(A, u)
            inside[id(u)] = explicit_context_nodes(u) if 'localcontext' in u.mod.src else set()
        return deco[id(u)], inside[id(u)]
    def dead_note(u):
        problem = scoping_decorator_state(A, u)[1]
        if problem:
            return ' (%s)' % problem
        for dd in u.node.decorator_list:
            dfn = _resolve_decorator(A, u, dd)
            if dfn is not None and decorator_definition_kind(dfn) != 'context':
                kind_, _ids, desc_ = analyse_decorator(dfn)
                if kind_ == 'import-time':
                    return ' (its decorator @%s does not scope the context around the call: %s - on the importing thread ' \
                           'only; definition at line %d of its module)' % (dfn.name, desc_, dfn.lineno)
                return ' (its decorator @%s establishes no decimal context around the call: %s; definition at line %d of ' \
                       'its module)' % (dfn.name, desc_ or 'unknown shape', dfn.lineno)
        return ''
    region = {}
    todo = list(need)
    while todo:
        u = todo.pop()
        if id(u) in region:
            continue
        region[id(u)] = u
        if info(u)[0]:
            continue
        for (k, c, how, shift, recv) in A.rev.get(id(u), []):
            if k is not None and id(k) not in region and how != 'escapes':
                dk_, ins = info(k)
                if not (dk_ or id(c) in ins):
                    todo.append(k)
    why = {}
    forced = set()
    for _outer in range(50):
        state = {i: i not in forced for i in region}
        changed = True
        while changed:
            changed = False
            for i, u in region.items():
                if not state[i] or info(u)[0]:
                    continue
                cs = A.rev.get(i, [])
                bad = None
                if not cs:
                    bad = 'it has no caller in the analysed packages (an entry point)'
                for (k, c, how, shift, recv) in cs:
                    if how == 'escapes':
                        bad = 'it is referenced as a value in %s' % (k.qual if k else 'module code')
                        break
                    dk_, ins = info(k)
                    if dk_ or id(c) in ins or k is u:
                        continue
                    if not state.get(id(k), False):
                        bad = 'it is called from %s (%s:%d) without one%s' % (k.qual, k.mod.rel, c.lineno, dead_note(k))
                        break
                if bad:
                    state[i] = False
                    why[i] = bad[:520]
                    changed = True
        grounded = set()
        changed = True
        while changed:
            changed = False
            for i, u in region.items():
                if i in grounded or not state[i]:
                    continue
                if info(u)[0]:
                    grounded.add(i)
                    changed = True
                    continue
                for (k, c, how, shift, recv) in A.rev.get(i, []):
                    if k is None or k is u:
                        continue
                    dk_, ins = info(k)
                    if dk_ or id(c) in ins or id(k) in grounded:
                        grounded.add(i)
                        changed = True
                        break
        newly = [i for i in region if state[i] and i not in grounded]
        if not newly:
            break
        for i in newly:
            forced.add(i)
            why[i] = 'no call chain starts under an explicit context'
    else:
        raise AnalysisError('context coverage predicate did not stabilise')
    n_sites = 0
    for u in need:
        d, ins = info(u)
        uncovered = []
        for n, detail in sites[id(u)]:
            n_sites += 1
            if d:
                chk.ok(R_DEC, u.path, u.qual, '%s under %s' % (detail, d), n.lineno)
            elif id(n) in ins:
                chk.ok(R_DEC, u.path, u.qual, '%s under with localcontext()' % detail, n.lineno)
            elif state.get(id(u), False):
                chk.ok(R_DEC, u.path, u.qual, '%s - every caller runs under an explicit context' % detail, n.lineno)
            else:
                uncovered.append((n, detail))
        if uncovered:
            # one report per function: the outermost operations, in normal form
            inner = set()
            for n, detail in uncovered:
                for x in ast.walk(n):
                    if x is not n:
                        inner.add(id(x))
            outer = [(n, detail) for n, detail in uncovered if id(n) not in inner]
            forms = sorted({detail for n, detail in outer})
            lines = sorted({n.lineno for n, detail in outer})
            dead = dead_note(u)
            chk.bad(R_DEC, u.path, u.qual, '; '.join(forms),
                    '%d Decimal operation(s) in %s (lines %s) run under whatever decimal context the calling thread has - no '
                    'working @precision / `with localcontext()` here%s, and %s: the digits of the result depend on the thread '
                    '(a thread whose context was configured elsewhere computes with that precision, any other thread with the '
                    'default 28 digits)'
                    % (len(outer), u.qual, ', '.join(map(str, lines)), dead, why.get(id(u), 'a caller is uncovered')),
                    lines[0])
    return n_sites


# ---- C02-e mutable defaults ------------------------------------------------------------------------

def is_mutable_default(e):
    if isinstance(e, (ast.List, ast.Dict, ast.Set, ast.ListComp, ast.DictComp, ast.SetComp)):
        return True
    return isinstance(e, ast.Call) and isinstance(e.func, ast.Name) and e.func.id in CONTAINER_CTORS


def rule_defaults(chk, A):
    # attribute names on which some mutation happens anywhere: x.A.append(..), x.A[k] = v, x.A += [..], f(x.A) with f mutating
    mutated = {}

    def note(attr, u, node, what):
        mutated.setdefault(attr, []).append((u, node, what))
    for u in A.units:
        for t, stmt, kind, value in u.stores:
            base = t.value
            if isinstance(base, ast.Attribute):
                note(base.attr, u, stmt, '%s through .%s' % (kind, base.attr))
            if kind == 'aug' and isinstance(t, ast.Attribute) and A._container_display(value):
                note(t.attr, u, stmt, 'augmented assignment to .%s' % t.attr)
        for c in u.calls:
            f = c.func
            if isinstance(f, ast.Attribute) and f.attr in MUTATORS and isinstance(f.value, ast.Attribute):
                note(f.value.attr, u, c, '.%s.%s()' % (f.value.attr, f.attr))
            ag, shift, recv = A.call_summary(u, c)
            if ag is not None and ag.n:
                for i, a in enumerate(c.args):
                    if isinstance(a, ast.Attribute) and (i in ag.mut_pos or (ag.mut_var_from is not None and i >= ag.mut_var_from)):
                        note(a.attr, u, c, 'passed to a callee that mutates argument %d' % i)
                for k in c.keywords:
                    if isinstance(k.value, ast.Attribute) and k.arg in ag.mut_kw:
                        note(k.value.attr, u, c, 'passed to a callee that mutates %s' % k.arg)
                if ag.mut_self and isinstance(recv, ast.Attribute) and isinstance(f, ast.Attribute):
                    note(recv.attr, u, c, '.%s.%s() mutates its receiver' % (recv.attr, f.attr))
    n = 0
    for u in A.units:
        for p, d in sorted(u.defaults.items()):
            if not is_mutable_default(d):
                continue
            n += 1
            construct = '%s(%s=%s)' % (u.qual, p, ast.unparse(d))
            if 'p:' + p in u.mut:
                chk.bad(R_DEF, u.path, construct, 'mutated in the function',
                        'the default object of parameter %s is created once at definition time and %s mutates it: every call '
                        'that relies on the default sees what earlier calls left behind' % (p, u.qual), u.node.lineno)
                continue
            stored = set()
            for t, stmt, kind, value in u.stores:
                if kind == 'store' and isinstance(t, ast.Attribute) and value is not None \
                        and any(isinstance(x, ast.Name) and x.id == p for x in ast.walk(value)):
                    stored.add(t.attr)
            names = set(stored)
            if u.cls is not None:
                for a in list(stored):
                    for cand in (a, a[len('_' + u.cls.name.lstrip('_')):] if a.startswith('_' + u.cls.name.lstrip('_') + '__') else a):
                        names.add(cand)
                # properties that hand the stored attribute out
                for k in A.related(u.cls):
                    for nm, fn in k.methods.items():
                        pu = A.unit_of.get(id(fn))
                        if pu is None or 'property' not in pu.decos:
                            continue
                        for r in pu.returns:
                            if isinstance(r, ast.Attribute) and isinstance(r.value, ast.Name) and r.value.id == pu.recv \
                                    and r.attr in stored:
                                names.add(nm)
            hits = []
            for a in sorted(names):
                for (hu, node, what) in mutated.get(a, []):
                    hits.append('%s in %s (%s:%d)' % (what, hu.qual, hu.mod.rel, node.lineno))
            returned = 'p:' + p in u.ret
            detail = 'stored as %s' % sorted(names) if names else ('returned' if returned else 'read only')
            chk.judge(not hits, R_DEF, u.path, construct, detail,
                      'the default object of parameter %s (shared by every call that omits it) is stored in .%s and mutated: %s'
                      % (p, '/.'.join(sorted(names)), '; '.join(hits[:4])), u.node.lineno)
    return n


# ---- class-level containers, one-shot iterators, decorators ----------------------------------------

def rule_class_mutable(chk, A):
    """a write through `self.<attr>` - in a constructor or in a build-time helper - fills the object under construction only
    when <attr> is bound per instance; when <attr> is a class-level list / dict / set (assigned or annotated-assigned in a
    class body of the MRO) that no constructor of the chain rebinds, every instance fills the same object.  The process-wide
    model cache is written through the class name, not through self, and is governed by C02.cache-key."""
    ctor_assigned = {}

    def assigned_in_ctor_chain(c):
        r = ctor_assigned.get(id(c))
        if r is None:
            r = set()
            for k in A.idx.mro(c):
                for nm in CTOR_NAMES:
                    fn = k.methods.get(nm)
                    cu = A.unit_of.get(id(fn)) if fn is not None else None
                    if cu is None:
                        continue
                    for t, stmt, kind, value in cu.stores:
                        if kind == 'store' and isinstance(t, ast.Attribute) and isinstance(t.value, ast.Name) \
                                and t.value.id == cu.recv:
                            r.add(t.attr)
            ctor_assigned[id(c)] = r
        return r

    def class_level(c, x):
        """(defining class, attr name, value) of a class-level mutable container behind self.x, else None"""
        k, v = A.idx.class_attr(c, x)
        if v is None and x.startswith('_'):
            for q in A.idx.mro(c):
                pre = '_' + q.name.lstrip('_')
                if x.startswith(pre + '__') and x[len(pre):] in q.attrs:
                    k, v, x = q, q.attrs[x[len(pre):]], x[len(pre):]
                    break
        if v is None or A.immutable_value(k.mod, k, v):
            return None
        return k, x, v

    mutated = {}        # (class qual, attr) -> [(unit, node, what, classes whose instances share it)]
    for u in A.units:
        if u.cls is None or not u.recv or u.is_classmethod:
            continue
        for kind, root, node, path, name, formal, expr in A.sites(u):
            if root != SELF:
                continue
            x = mutated_attr(kind, path)
            if x is None:
                continue
            hit = class_level(u.cls, x)
            if hit is None:
                continue
            if kind == 'call':
                # same root-cause policy as C02.shared-write: effects that only exist because some callee writes its
                # own receiver on the recognise path are reported once, at that callee
                if formal == 'self':
                    if any(SELF in h.mut and h.kind == 'plain' and not A.confined.get((id(h), SELF), False)
                           for h in A.candidates(u, node)[0]):
                        continue
                elif not A.binds_primary(u, node, expr):
                    continue
            k, attr, v = hit
            fam = A.subclasses_incl(u.cls)
            leaves = [c for c in fam if not any(d is not c and c in A.idx.mro(d) for d in fam)]
            sharing = sorted(c.name for c in leaves if x not in assigned_in_ctor_chain(c))
            if not sharing:
                continue
            what = '%s %s' % (kind, path) if kind != 'call' else 'passes %s to %s() which mutates its %s' % (path, name, formal)
            if kind == 'mutator':
                what = '%s.%s()' % (path, name)
            mutated.setdefault((k.qual, attr), []).append((u, node, what, sharing))
    n = 0
    for c in A.idx.all_classes():
        if not A.in_scope(c.mod) or '.resources.' in c.mod.name:
            continue
        for a, v in sorted(c.attrs.items()):
            if A.immutable_value(c.mod, c, v) or not (is_mutable_default(v) or isinstance(v, ast.Call)):
                continue
            if not is_mutable_default(v) and not (isinstance(v.func, ast.Name) and v.func.id in CONTAINER_CTORS):
                continue
            n += 1
            hits = mutated.get((c.qual, a), [])
            if not hits:
                chk.ok(R_CLS, c.mod.path, '%s.%s' % (c.name, a), 'class-level %s: never written through self'
                       % type(v).__name__, c.node.lineno)
                continue
            hu, node, what, sharing = hits[0]
            chk.bad(R_CLS, c.mod.path, '%s.%s' % (c.name, a),
                    'class-level %s written through self by %s' % (type(v).__name__, sorted({h[0].qual for h in hits})),
                    'the class-level container %s.%s is ONE object shared by every instance (no constructor of %s rebinds '
                    'self.%s), and %s (%s:%d) writes into it through self: %s - what one model contains depends on which '
                    'models were built before it'
                    % (c.name, a, ', '.join(sharing[:4]) + (' ...' if len(sharing) > 4 else ''), a, hu.qual, hu.mod.rel,
                       getattr(node, 'lineno', 0), what), getattr(node, 'lineno', c.node.lineno))
    # class-level tables bound by reference (`x: Dict = Resource.Table`): shared by construction, flagged when written
    for (kq, attr), hits in sorted(mutated.items()):
        k = None
        for c in A.idx.all_classes():
            if c.qual == kq:
                k = c
                break
        if k is None or attr not in k.attrs:
            continue
        v = k.attrs[attr]
        if is_mutable_default(v) or (isinstance(v, ast.Call) and isinstance(v.func, ast.Name) and v.func.id in CONTAINER_CTORS):
            continue        # reported above
        if not A.in_scope(k.mod) or '.resources.' in k.mod.name:
            continue
        hu, node, what, sharing = hits[0]
        n += 1
        chk.bad(R_CLS, k.mod.path, '%s.%s' % (k.name, attr), 'class-level reference written through self by %s'
                % sorted({h[0].qual for h in hits}),
                'the class-level attribute %s.%s refers to one shared object and %s (%s:%d) writes into it through self: %s'
                % (k.name, attr, hu.qual, hu.mod.rel, getattr(node, 'lineno', 0), what), getattr(node, 'lineno', 0))
    return n


def rule_oneshot(chk, A):
    """an iterator that can be consumed once (map / filter / zip / generator) must not live in shared state"""
    n = 0
    for u in A.units:
        for t, stmt, kind, value in u.stores:
            if kind != 'store' or value is None:
                continue
            if not A._oneshot(u, value):
                continue
            base_self = isinstance(t.value, ast.Name) and t.value.id == u.recv and u.cls is not None
            roots = A.R(u, t.value)
            if base_self or any(r == SELF or r.startswith('g:') for r in roots):
                n += 1
                chk.bad(R_ONE, u.path, u.qual, 'one-shot iterator stored in %s' % A.nf(u, t),
                        '%s holds a one-shot iterator (map / filter / zip / generator): the first recognise call that walks '
                        'it leaves it empty for every later call' % A.nf(u, t), stmt.lineno)
    for m in A.idx.mods.values():
        if not A.in_scope(m):
            continue
        items = [('<module %s>' % m.name, a, v) for a, v in m.assigns.items()]
        for c in m.classes.values():
            items.extend((c.name, a, v) for a, v in c.attrs.items())
        for owner, a, v in items:
            if isinstance(v, ast.GeneratorExp) or (isinstance(v, ast.Call) and isinstance(v.func, ast.Name)
                                                   and v.func.id in ONESHOT_FUNCS):
                n += 1
                chk.bad(R_ONE, m.path, '%s.%s' % (owner, a), 'one-shot iterator at class / module level',
                        '%s.%s is a one-shot iterator shared by the whole process' % (owner, a), v.lineno)
    return n


def rule_decorators(chk, A):
    seen = {}
    for u in A.units:
        for d, raw in zip(u.decos, u.node.decorator_list):
            if isinstance(raw, ast.Attribute) and raw.attr in ('setter', 'getter', 'deleter'):
                key = 'property.' + raw.attr
            else:
                key = d
            seen.setdefault(key, []).append((u, raw))
    for c in A.idx.all_classes():
        if A.in_scope(c.mod):
            for raw in c.node.decorator_list:
                seen.setdefault(deco_name(raw), []).append((None, raw))
    for key, uses in sorted(seen.items(), key=lambda kv: str(kv[0])):
        u, raw = uses[0]
        path = u.path if u is not None else ''
        where = u.qual if u is not None else 'class decorator'
        if key is None:
            raise AnalysisError('%s:%d decorator expression %s is not understood' % (u.mod.rel if u else '?', raw.lineno,
                                                                                     ast.unparse(raw)))
        if key in SAFE_DECORATORS or key.startswith('property.'):
            chk.ok(R_DECO, path, '@' + key, 'no state of its own', raw.lineno)
        elif key in MEMO_DECORATORS:
            for u, raw in uses:
                chk.exempt(R_DECO, u.path if u else '', '%s @%s' % (u.qual if u else 'class', key),
                           'memoising decorator: the cache is process-wide state; the returned object is treated as shared '
                           '(any mutation of it is a C02.shared-write site)', 'memo', raw.lineno)
        elif u is not None and (context_decorator(A, u) or (
                _resolve_decorator(A, u, raw) is not None
                and decorator_definition_kind(_resolve_decorator(A, u, raw)) == 'context')):
            chk.ok(R_DECO, path, '@' + key, 'defined in the analysed packages, classified from its definition as scoping: runs '
                   'the call under an explicit decimal context (the precision given at each use is judged by %s)' % R_DEC,
                   raw.lineno)
        elif u is not None and _resolve_decorator(A, u, raw) is not None \
                and decorator_definition_kind(_resolve_decorator(A, u, raw)) in ('identity', 'wrapper', 'import-time'):
            kind_, _ids, desc_ = analyse_decorator(_resolve_decorator(A, u, raw))
            chk.ok(R_DECO, path, '@' + key, 'defined in the analysed packages, classified from its definition as %s (%s): '
                   'keeps no per-call state and gives no decimal context - judged by %s' % (kind_, desc_, R_DEC), raw.lineno)
        else:
            dfn = _resolve_decorator(A, u, raw) if u is not None else None
            if dfn is not None:
                raise AnalysisError('%s:%d decorator @%s on %s: its definition (line %d of its module) has a shape the '
                                    'checker does not classify as scoping / import-time / plain wrapper / identity - it may '
                                    'keep state between calls' % (u.mod.rel, raw.lineno, key, where, dfn.lineno))
            raise AnalysisError('%s:%d unknown decorator @%s on %s: it is defined outside the analysed packages and may keep '
                                'state between calls - add it to the reviewed list in sa/props/c02.py after reading it'
                                % (u.mod.rel if u else '?', raw.lineno, key, where))


# =====================================================================================================
# positive controls and the entry points
# =====================================================================================================

CONTROL_SOURCES = {
    'recognizers_text.model': """
class Model:
    def parse(self, query):
        raise NotImplementedError
class ModelFactory:
    __cache = dict()
    def __init__(self):
        self.model_factories = dict()
    def get_model_from_cache(self, model_type, culture, options):
        key = (model_type, options)
        return ModelFactory.__cache.get(key)
    def register_model_in_cache(self, model_type, culture, options, model):
        key = (model_type, options)
        ModelFactory.__cache[key] = model
    def try_get_model(self, model_type, culture, options):
        model = self.model_factories[(model_type, culture)](options)
        self.register_model_in_cache(model_type, culture, options, model)
        return model
""",
    'recognizers_text.recognizer': """
class Recognizer:
    def __init__(self):
        self.model_factory = None
""",
    'ctl.parsers': """
import random
from datetime import datetime
from decimal import Decimal, getcontext
from recognizers_text.model import Model
getcontext().prec = 9
COUNTER = 0
class Table:
    SHARED = []
class Er:
    def __init__(self):
        self.text = ''
class CtlParser:
    names = []
    def __init__(self, seen=[]):
        self.seen = seen
        self.memo = {}
        self.last = None
        self.names.append('x')
        self.it = map(str, [1])
    def parse(self, er, reference=None):
        global COUNTER
        COUNTER += 1
        reference = datetime.now()
        self.memo[er.text] = er
        self.last = er
        Table.SHARED.append(er)
        self.seen.append(er)
        tie = random.choice([1, 2])
        return Decimal(1) / Decimal(3)
class CtlModel(Model):
    def __init__(self):
        self.parser = CtlParser()
        self.template = Er()
    def parse(self, query):
        self.fix(self.template)
        return self.parser.parse(self.template)
    def fix(self, er):
        er.text = 'x'
""",
}


# behaviour-preserving twins of the violating constructs above: the same rules must stay silent on these
CLEAN_SOURCES = {
    'recognizers_text.model': """
from collections import namedtuple
CacheKey = namedtuple('CacheKey', ['model_type', 'culture', 'options'])
class Model:
    def parse(self, query):
        raise NotImplementedError
class ModelFactory:
    __cache = dict()
    def __init__(self):
        self.model_factories = dict()
    def get_model_from_cache(self, model_type, culture, options):
        key = CacheKey(model_type=model_type, culture=culture, options=options)
        return ModelFactory.__cache.get(key, None)
    def register_model_in_cache(self, model_type, culture, options, model):
        key = CacheKey(model_type=model_type, culture=culture, options=options)
        ModelFactory.__cache[key] = model
    def register_model(self, model_type, culture, ctor):
        self.model_factories[(model_type, culture)] = ctor
    def try_get_model(self, model_type, culture, options):
        hit = self.get_model_from_cache(model_type, culture, options)
        if hit is not None:
            return hit
        model = self.model_factories[(model_type, culture)](options)
        self.register_model_in_cache(model_type, culture, options, model)
        return model
""",
    'recognizers_text.recognizer': """
from recognizers_text.model import ModelFactory
class Recognizer:
    def __init__(self):
        self.model_factory = ModelFactory()
        self.initialize_configuration()
    def initialize_configuration(self):
        self.model_factory.register_model('M', 'en', lambda o: None)
""",
    'ctl.utilities': """
from decimal import localcontext
def precision(*args, **kwargs):
    def decorator(f):
        def inner(*a, **kwa):
            with localcontext() as ctx:
                ctx.prec = kwargs['prec']
                return f(*a, **kwa)
        return inner
    return decorator
""",
    'ctl.parsers': """
import copy
from datetime import datetime
from decimal import Decimal, localcontext
from recognizers_text.model import Model
from ctl.utilities import precision
class Er:
    def __init__(self):
        self.text = ''
        self.tags = []
    def tag(self, t):
        self.tags.append(t)
        self.text = self.text + t
class Trie:
    def __init__(self):
        self.children = {}
    def insert(self, word):
        node = self.children
        for ch in word:
            node = node.setdefault(ch, {})
    def find(self, word):
        return word in self.children
class CtlParser:
    names = ('a', 'b')
    def __init__(self, seen=None, extra=[]):
        self.seen = list(seen or [])
        self.extra = extra
        self.table = {}
        self.table['k'] = 1
        self.trie = Trie()
        self._fill()
        self.words = list(map(str, [1]))
        self.template = Er()
    def _fill(self):
        self.trie.insert('abc')
        self.table['j'] = 2
    def parse(self, er, reference=None):
        if reference is None:
            reference = datetime.now()
        other = datetime.now() if reference is None else reference
        local = {}
        local[er.text] = er
        keys = list(self.table)
        keys.append('z')
        mine = copy.deepcopy(self.template)
        mine.text = er.text
        mine.tag('x')
        er.text = er.text.lower()
        self.fix(er)
        for w in self.words:
            local[w] = self.trie.find(w)
        return self.value(er)
    def fix(self, er):
        er.tag('y')
    @precision(prec=15)
    def value(self, er):
        return self.third(Decimal(len(er.text)))
    def third(self, d: Decimal) -> Decimal:
        return d / Decimal(3)
    def other(self, d):
        with localcontext() as ctx:
            ctx.prec = 15
            return Decimal(d) * Decimal('0.1')
class CtlModel(Model):
    def __init__(self):
        self.parser = CtlParser()
    def parse(self, query):
        er = Er()
        er.text = query
        return self.parser.parse(er)
""",
}


def mini_index(sources):
    ix = Index.__new__(Index)
    ix.mods, ix.by_path, ix.classes_by_name, ix.errors = {}, {}, {}, []
    for name, src in sources.items():
        m = Mod(name, '<control>/' + name.replace('.', '/') + '.py', ast.parse(src), src)
        ix.mods[name] = m
    for m in ix.mods.values():
        ix._scan(m)
    return ix


class _Sink:
    """stands in for sa.core.Check while the rules run over the embedded violating sources"""

    def __init__(self):
        self.fired = {}

    def ok(self, *a, **k):
        pass

    def exempt(self, *a, **k):
        pass

    def bad(self, rule, path, construct, detail, msg, line=None):
        self.fired.setdefault(rule, []).append((construct, detail))

    def judge(self, cond, rule, path, construct, detail, msg, line=None):
        if not cond:
            self.bad(rule, path, construct, detail, msg, line)


def analyse(idx, scope):
    A = Analysis(idx, scope)
    A.solve()
    A.solve_build_only()
    A.solve_primary()
    A.solve_value_classes()
    return A


def run_rules(chk, A):
    counts = {}
    counts['param'] = rule_shared(chk, A)
    rule_cache(chk, A)
    rule_ambient(chk, A)
    counts['decimal'] = rule_decimal(chk, A)
    counts['defaults'] = rule_defaults(chk, A)
    counts['class'] = rule_class_mutable(chk, A)
    counts['oneshot'] = rule_oneshot(chk, A)
    rule_decorators(chk, A)
    return counts


def controls(chk):
    sink = _Sink()
    run_rules(sink, analyse(mini_index(CONTROL_SOURCES), None))
    want = {
        R_WRITE: ['store self.memo[]', 'store self.last', 'Table.SHARED.append()', 'global rebinding COUNTER'],
        R_PARAM: ['passes self.template to fix()'],
        R_CACHE: ['key built from'],
        R_AMB: ['datetime.datetime.now()', 'random.choice()'],
        R_DEC: ['Decimal arithmetic'],
        R_DECIMP: ['getcontext().prec = 9'],
        R_DEF: ['stored as'],
        R_CLS: ['class-level'],
        R_ONE: ['one-shot iterator stored in self.it'],
    }
    for rule, needles in want.items():
        got = ' | '.join('%s :: %s' % cd for cd in sink.fired.get(rule, []))
        chk.control(rule, all(n in got for n in needles))
    clean = _Sink()
    run_rules(clean, analyse(mini_index(CLEAN_SOURCES), None))
    if clean.fired:
        raise AnalysisError('negative control: the rules fire on the embedded behaviour-preserving twins: %s'
                            % '; '.join('%s %s %s' % (r, c, d) for r, v in sorted(clean.fired.items()) for c, d in v)[:600])


def run(chk):
    chk.explanation = ('whole-program effect analysis of the packages a recogniser imports: per-function summaries (roots '
                       'mutated, roots returned, Decimal kind) solved to a fixpoint with class-hierarchy + name call '
                       'resolution; every write that can reach shared state must lie in a constructor or in a build-time-only '
                       'method (greatest-fixpoint who-may-call predicate), the model cache has one guarded writer keyed by all '
                       'its parameters, ambient reads match the defaulting idiom, Decimal operations are dominated by an '
                       'explicit context, mutable defaults / class-level containers / one-shot iterators are never shared and '
                       'mutated')
    idx = get_index()
    scope = recogniser_scope(idx)
    check_dynamic(idx, scope)
    chk.rule(R_WRITE, 'stores / mutator calls rooted in self, a class or a module name occur only in constructors, property '
             'setters judged at their use sites, or build-time-only methods', floor=8, control=True)
    chk.rule(R_PARAM, 'functions that mutate a parameter are only handed per-call objects (never an object rooted in shared '
             'state outside build-time code)', floor=25, control=True)
    chk.rule(R_CACHE, 'model cache: one writer, key covers every parameter but the stored model, lookup key built the same '
             'way, write follows a miss', floor=3, control=True)
    chk.rule(R_AMB, 'clock / random / environment reads only as `if reference is None: reference = datetime.now()`',
             floor=30, control=True)
    chk.rule(R_DEC, 'every Decimal operation runs under an explicit context (@precision, its definition verified on every '
             'run / with localcontext / all callers)', floor=5, control=True)
    chk.rule(R_DECIMP, 'no thread-local decimal configuration at import', floor=0, control=True)
    chk.rule(R_DEF, 'mutable default arguments are never mutated (directly or through the attribute they are stored in)',
             floor=3, control=True)
    chk.rule(R_CLS, 'class-level containers of hand-written classes are not mutated through self in constructors', floor=1,
             control=True)
    chk.rule(R_ONE, 'no one-shot iterator in shared state', floor=0, control=True)
    chk.rule(R_DECO, 'every decorator is on the reviewed list (memoising decorators make their result shared state)', floor=4)
    A = analyse(idx, scope)
    counts = run_rules(chk, A)
    controls(chk)
    for m in idx.mods.values():
        if A.in_scope(m) and '.resources.' not in m.name:
            chk.consulted(m.path)
    out_of_scope = sorted({m.name.split('.')[0] for m in idx.mods.values()} - scope)
    chk.observe('packages analysed: %s; outside the recognisers\' import closure (not analysed): %s'
                % (', '.join(sorted(scope)), ', '.join(out_of_scope) or 'none'))
    chk.observe('%d function units; %d functions referenced as values (calls through variables resolve to these): %s'
                % (len(A.units), len(A.esc_units), ', '.join(sorted({u.name for u in A.esc_units})[:8]) + ' ...'))
    chk.extra['units'] = len(A.units)
    chk.extra['packages'] = sorted(scope)
    chk.assume('callee resolution is by class hierarchy and name (no reflective dispatch: checked, fails closed)')
    chk.assume('the timex_str of duration / time parse results does not depend on the reference date (BaseSetParser passes '
               'datetime.now() to those two parsers and reads only .timex_str)')
    chk.assume('an object obtained from a call outside the analysed packages (regex, datetime, queue) is not shared state')
