"""C16 - tokenizers and dictionary matcher (offset algebra).

C16.token-slice   every Token(a, b, input[c:d]) built by the tokenizers has c == a and d == a + b
C16.flush         per branch of the scanner loop x in_token in {T, F}: the emitted intervals are exactly the pending
                  interval [token_start, i) and/or [i, i+1), and the (in_token, token_start) invariant is re-established;
                  the epilogue flushes [token_start, len)
C16.find-map      StringMatcher.find maps token indices back: end token index = r.start + r.length - 1,
                  start = start_token.start, length = end_token.end - start_token.start, text = query[start:start+length]
C16.init-pairs    the dict form of StringMatcher.init pairs every value with its own key
C16.trie-yield    TrieTree.find yields MatchResult(i, j - i, ...) for the walk that started at i, root reset per start
"""
import ast

from ..core import AnalysisError
from ..index import get_index
from .. import symx, spans
from ..symx import Lin, SStr, Unk, ObjRef, State, as_lin, as_str, as_obj

LEVEL = 'other'

TOKENIZERS = ['recognizers_text.matcher.simple_tokenizer.SimpleTokenizer',
              'recognizers_text.matcher.number_with_unit_tokenizer.NumberWithUnitTokenizer']


def _facts(idx, mod):
    f = symx.facts_from_index(idx, mod, ['Token', 'MatchResult'])
    if 'Token' not in f.ctors:
        # the matcher front end handles tokens of recognizers_text.matcher.token without importing the class
        symx._class_facts(idx, idx.cls('recognizers_text.matcher.token.Token'), f)
    f.method_types['tokenize'] = 'List[Token]'
    return f


def branches_of(ifnode):
    """if/elif/else chain -> list of (test or None, body)"""
    out = []
    cur = ifnode
    while True:
        out.append((cur.test, cur.body))
        if len(cur.orelse) == 1 and isinstance(cur.orelse[0], ast.If) and cur.orelse[0].col_offset == ifnode.col_offset:
            cur = cur.orelse[0]
            continue
        if cur.orelse:
            out.append((None, cur.orelse))
        break
    return out


def check_tokenizer(chk, idx, qual, snippet=None):
    if snippet is None:
        c = idx.cls(qual)
        if 'tokenize' not in c.methods:
            raise AnalysisError('anchor vanished: %s.tokenize' % qual)
        fn = c.methods['tokenize']
        mod = c.mod
        path = mod.path
        name = c.name
        facts = _facts(idx, mod)
        chk.consulted(path)
    else:
        fn, facts, path, name = snippet
    if 'Token' not in facts.ctors:
        raise AnalysisError('%s: Token class not resolvable' % name)
    params = [a.arg for a in fn.args.args if a.arg != 'self']
    if not params:
        raise AnalysisError('%s.tokenize has no input parameter' % name)
    inp = params[0]
    loops = [n for n in fn.body if isinstance(n, ast.For)]
    if len(loops) != 1 or not isinstance(loops[0].target, ast.Name):
        raise AnalysisError('%s.tokenize: expected exactly one scanner loop' % name)
    loop = loops[0]
    ivar = loop.target.id
    # names: chars = list(input) alias; `c = chars[i]`
    ifs = [s for s in loop.body if isinstance(s, ast.If)]
    if len(ifs) != 1:
        raise AnalysisError('%s.tokenize: expected one if/elif/else chain in the scanner loop' % name)
    brs = branches_of(ifs[0])
    if len(brs) != 3 or brs[2][0] is not None:
        raise AnalysisError('%s.tokenize: expected space / separator / token-character branches, found %d' % (name, len(brs)))
    if 'isspace' not in ast.unparse(brs[0][0]):
        raise AnalysisError('%s.tokenize: first branch is not the whitespace test' % name)
    kinds = ['space', 'separator', 'char']
    violations = []

    def run_region(stmts, in_token):
        log = []

        def on_construct(w, st, cname, argv, kwv, node):
            if cname == 'Token':
                st.log.append((argv, node))
        st = State()
        for p in params:
            st.vars[p] = Unk(('var', p))
        st.vars[ivar] = Unk(('var', ivar))
        st.vars['token_start'] = Unk(('var', 'token_start'))
        st.vars['in_token'] = Unk(('var', 'in_token'))
        st.tri['in_token'] = frozenset(['truthy']) if in_token else frozenset(['falsy'])
        st.vars['tokens'] = Unk(('var', 'tokens'))
        st.vars['chars'] = st.vars[inp]       # chars = list(input) (checked below): same length, same indices
        st.vars['c'] = Unk(('var', 'c'))
        st.vars['self'] = Unk(('var', 'self'))
        w = symx.Walker(fn, facts, lambda *a: None, name)
        w.on_construct = on_construct
        # treat every If in the region as relevant
        w.relevant = lambda node: True
        return w.block(stmts, st), w

    I = Lin.atom(('var', ivar))
    TS = Lin.atom(('var', 'token_start'))
    INP = ('var', inp)

    def token_ok(argv, node, where):
        """C16.token-slice on one construction; returns (start, length) Lin"""
        if len(argv) < 3:
            violations.append((node.lineno, where, 'Token built with %d arguments' % len(argv)))
            return None
        a, b, t = as_lin(argv[0]), as_lin(argv[1]), as_str(argv[2])
        ok = t.kind == 'slice' and t.base.kind == 'base' and t.base.id == INP and not t.stripped \
            and t.a == a and t.b is not None and t.b == a + b
        chk.judge(ok, 'C16.token-slice', path, '%s.tokenize %s' % (name, where),
                  'Token(%r, %r, %r)' % (a, b, t),
                  '%s.tokenize builds Token(start=%r, length=%r) with text %r: the text is not input[start:start+length]'
                  % (name, a, b, t), node.lineno)
        return (a, b)

    n_shapes = 0
    for bi, (test, body) in enumerate(brs):
        kind = kinds[bi]
        for in_token in (True, False):
            outs, w = run_region(body, in_token)
            for st, status, node in outs:
                if status != 'fall':
                    violations.append((getattr(node, 'lineno', loop.lineno), kind, 'unexpected %s in the scanner loop' % status))
                    continue
                emitted = []
                for argv, nd in st.log:
                    r = token_ok(argv, nd, '%s branch, in_token=%s' % (kind, in_token))
                    if r:
                        emitted.append(r)
                out_in = st.tri.get('in_token')
                ts_after = as_lin(st.vars['token_start'])
                pend = (TS, I - TS)
                single = (I, Lin(1))
                ok = False
                why = ''
                if kind == 'space':
                    want = [pend] if in_token else []
                    ok = emitted == want and out_in == frozenset(['falsy'])
                    why = 'whitespace must flush the pending token (if any), emit nothing else and leave in_token False'
                elif kind == 'separator':
                    want = ([pend] if in_token else []) + [single]
                    ok = emitted == want and out_in == frozenset(['falsy'])
                    why = 'a separator must flush the pending token (if any), emit itself as Token(i, 1) and leave in_token False'
                else:
                    if not in_token:
                        ok = emitted == [] and out_in == frozenset(['truthy']) and ts_after == I
                        why = 'a token character outside a token must open one at i (token_start = i, in_token = True)'
                    else:
                        cont = emitted == [] and ts_after == TS
                        split = emitted == [pend] and ts_after == I
                        ok = (cont or split) and out_in == frozenset(['truthy'])
                        why = 'a token character inside a token must either continue it or split: flush [token_start, i) and restart at i'
                n_shapes += 1
                detail = '%s in_token=%s emits %s -> in_token %s token_start %r' % (
                    kind, in_token, [(repr(a), repr(b)) for a, b in emitted],
                    'T' if out_in == frozenset(['truthy']) else 'F' if out_in == frozenset(['falsy']) else '?', ts_after)
                chk.judge(ok, 'C16.flush', path, '%s.tokenize %s/in_token=%s' % (name, kind, in_token), detail,
                          '%s.tokenize: %s; found: %s' % (name, why, detail), loop.lineno)
    # epilogue: statements after the loop
    after = fn.body[fn.body.index(loop) + 1:]
    LEN = symx.slen(SStr('base', id=INP))
    for in_token in (True, False):
        outs, w = run_region(after, in_token)
        for st, status, node in outs:
            emitted = []
            for argv, nd in st.log:
                r = token_ok(argv, nd, 'epilogue, in_token=%s' % in_token)
                if r:
                    emitted.append(r)
            # len(chars) == len(input): chars = list(input)
            norm = []
            for a, b in emitted:
                norm.append((a, b))
            want = [(TS, LEN - TS)] if in_token else []
            alt = [(TS, Lin.atom(('len', "?chars")) - TS)] if in_token else []
            ok = norm == want or [(repr(a), repr(b).replace('len(?chars)', 'len(%s)' % inp)) for a, b in norm] == \
                [(repr(a), repr(b)) for a, b in want]
            detail = 'epilogue in_token=%s emits %s' % (in_token, [(repr(a), repr(b)) for a, b in emitted])
            chk.judge(ok, 'C16.flush', path, '%s.tokenize epilogue/in_token=%s' % (name, in_token), detail,
                      '%s.tokenize: after the loop the pending token [token_start, len) must be flushed exactly when '
                      'in_token; found: %s' % (name, detail), loop.lineno)
    # chars must be list(input) so that len(chars) == len(input)
    chars_ok = any(isinstance(s, ast.Assign) and len(s.targets) == 1 and isinstance(s.targets[0], ast.Name)
                   and s.targets[0].id == 'chars' and isinstance(s.value, ast.Call) and isinstance(s.value.func, ast.Name)
                   and s.value.func.id == 'list' and len(s.value.args) == 1 and isinstance(s.value.args[0], ast.Name)
                   and s.value.args[0].id == inp for s in fn.body)
    uses_chars = any(isinstance(n, ast.Name) and n.id == 'chars' for n in ast.walk(fn))
    if uses_chars:
        chk.judge(chars_ok, 'C16.flush', path, '%s.tokenize chars' % name, 'chars = list(%s)' % inp,
                  '%s.tokenize: `chars` is not list(%s); character indices would not be offsets into the input' % (name, inp),
                  fn.lineno)
    for v in violations:
        chk.bad('C16.flush', path, '%s.tokenize' % name, v[2], '%s.tokenize: %s (%s branch)' % (name, v[2], v[1]), v[0])
    return n_shapes


def check_find(chk, idx):
    c = idx.cls('recognizers_text.matcher.string_matcher.StringMatcher')
    if 'find' not in c.methods:
        raise AnalysisError('anchor vanished: StringMatcher.find')
    fn = c.methods['find']
    chk.consulted(c.mod.path)
    facts = _facts(idx, c.mod)
    seen = []

    def on_check(w, st, oid, flds, node, why):
        if st.objcls.get(oid) != 'MatchResult':
            return
        seen.append((st, oid, node))

    w = symx.Walker(fn, facts, on_check, c.name)
    w.run()
    if not seen:
        raise AnalysisError('StringMatcher.find: no MatchResult construction found')
    q = [a.arg for a in fn.args.args if a.arg != 'self'][0]
    for st, oid, node in seen:
        s = as_lin(w.field(st, oid, 'start'))
        l = as_lin(w.field(st, oid, 'length'))
        t = as_str(w.field(st, oid, 'text'))
        # expected: tokens T = tokenize(q); r iterates the token-level matches
        v = spans.judge_text(w, st, t, s, l, 0, oid)
        ok_text = v[0] == 'ok' and t.kind == 'slice' and t.base.kind == 'base' and t.base.id == ('var', q)
        chk.judge(ok_text, 'C16.find-map', c.mod.path, 'StringMatcher.find text', repr(t) if not ok_text else 'query[start:start+length]',
                  'StringMatcher.find: MatchResult text is not query[start:start+length] (%s)' % v[1], getattr(node, 'lineno', fn.lineno))
        # index mapping, read off the atoms of start and length
        st_atoms = list(s.t.items())
        ok_start = len(st_atoms) == 1 and st_atoms[0][1] == 1 and s.c == 0 and isinstance(st_atoms[0][0], tuple) \
            and st_atoms[0][0][0] == 'fld' and st_atoms[0][0][2] == 'start' and isinstance(st_atoms[0][0][1], tuple) \
            and st_atoms[0][0][1][0] == 'item'
        start_idx = st_atoms[0][0][1][2] if ok_start else None
        chk.judge(ok_start, 'C16.find-map', c.mod.path, 'StringMatcher.find start', repr(s),
                  'StringMatcher.find: start is not the start offset of the first matched token (%r)' % s, getattr(node, 'lineno', 0))
        # length = end_tok.start + end_tok.length - start_tok.start with end index = start index + r.length - 1
        pos = [(a, k) for a, k in l.t.items() if k == 1]
        neg = [(a, k) for a, k in l.t.items() if k == -1]
        ok_len = False
        detail = repr(l)
        if ok_start and len(neg) == 1 and neg[0][0] == st_atoms[0][0] and l.c == 0 and len(pos) == 2:
            flds = sorted(a[2] for a, _ in pos if isinstance(a, tuple) and a[0] == 'fld')
            objs = {repr(a[1]) for a, _ in pos if isinstance(a, tuple) and a[0] == 'fld'}
            if flds == ['length', 'start'] and len(objs) == 1:
                end_obj = [a[1] for a, _ in pos][0]
                if isinstance(end_obj, tuple) and end_obj[0] == 'item' and end_obj[1] == st_atoms[0][0][1][1]:
                    # index algebra: end index - start index == r.length - 1
                    try:
                        ei, si = end_obj[2], start_idx
                        d = _key_to_lin(ei) - _key_to_lin(si)
                        names = [a for a in d.t]
                        ok_len = d.c == -1 and len(names) == 1 and d.t[names[0]] == 1 and isinstance(names[0], tuple) \
                            and names[0][0] == 'fld' and names[0][2] == 'length'
                        detail = 'end index - start index = %r' % d
                    except Exception:
                        ok_len = False
        chk.judge(ok_len, 'C16.find-map', c.mod.path, 'StringMatcher.find length', detail,
                  'StringMatcher.find: length is not end_token.end - start_token.start with end token index '
                  'r.start + r.length - 1 (%s)' % detail, getattr(node, 'lineno', 0))


def _key_to_lin(k):
    """Lin.key() -> Lin (atoms are their repr strings; only differences are inspected)"""
    c, items = k
    t = {}
    for name, coef in items:
        t[_ReprAtom(name)] = coef
    return Lin(c, t)


class _ReprAtom(tuple):
    """atom restored from repr text: behaves like the original tuple for display and equality"""

    def __new__(cls, text):
        try:
            val = ast.literal_eval(text)
        except Exception:
            val = (text,)
        if not isinstance(val, tuple):
            val = (val,)
        return super().__new__(cls, val)


def check_init_pairs(chk, idx):
    c = idx.cls('recognizers_text.matcher.string_matcher.StringMatcher')
    fn = c.methods.get('init')
    if fn is None:
        raise AnalysisError('anchor vanished: StringMatcher.init')
    found = 0
    for outer in ast.walk(fn):
        if not (isinstance(outer, ast.For) and isinstance(outer.target, ast.Name)):
            continue
        for inner in outer.body:
            if not (isinstance(inner, ast.For) and isinstance(inner.target, ast.Name)):
                continue
            # aliases of the outer key inside the outer body
            key_names = {outer.target.id}
            for s in outer.body:
                if isinstance(s, ast.Assign) and len(s.targets) == 1 and isinstance(s.targets[0], ast.Name) \
                        and isinstance(s.value, ast.Name) and s.value.id in key_names:
                    key_names.add(s.targets[0].id)
            it = inner.iter
            iter_ok = isinstance(it, ast.Subscript) and isinstance(it.slice, ast.Name) and it.slice.id in key_names \
                and ast.unparse(it.value) == ast.unparse(outer.iter)
            apps = [s.value for s in inner.body if isinstance(s, ast.Expr) and isinstance(s.value, ast.Call)
                    and isinstance(s.value.func, ast.Attribute) and s.value.func.attr == 'append' and len(s.value.args) == 1]
            val_apps = [a for a in apps if isinstance(a.args[0], ast.Name) and a.args[0].id == inner.target.id]
            key_apps = [a for a in apps if isinstance(a.args[0], ast.Name) and a.args[0].id in key_names]
            found += 1
            ok = iter_ok and len(val_apps) == 1 and len(key_apps) == 1 and len(apps) == 2
            lists = (ast.unparse(val_apps[0].func.value) if val_apps else '?', ast.unparse(key_apps[0].func.value) if key_apps else '?')
            # the two lists must be handed on as (values, ids) in that order
            handed = False
            for n in ast.walk(fn):
                if isinstance(n, ast.Call) and len(n.args) == 2 and all(isinstance(a, ast.Name) for a in n.args) \
                        and (n.args[0].id, n.args[1].id) == lists:
                    handed = True
            chk.judge(ok and handed, 'C16.init-pairs', c.mod.path, 'StringMatcher.init dict form',
                      'values->%s keys->%s paired per inner iteration, handed on in order: %s' % (lists[0], lists[1], handed),
                      'StringMatcher.init (dict form): each value of values[key] must be appended together with its own '
                      'key, and the two lists passed on as (values, ids)', outer.lineno)
    if not found:
        raise AnalysisError('StringMatcher.init: dict-form nested loop not found')


def check_trie(chk, idx):
    c = idx.cls('recognizers_text.matcher.trie_tree.TrieTree')
    fn = c.methods.get('find')
    if fn is None:
        raise AnalysisError('anchor vanished: TrieTree.find')
    chk.consulted(c.mod.path)
    outer = [n for n in fn.body if isinstance(n, ast.For) and isinstance(n.target, ast.Name)]
    if len(outer) != 1:
        raise AnalysisError('TrieTree.find: expected one outer loop over start indices')
    outer = outer[0]
    inner = [n for n in outer.body if isinstance(n, ast.For) and isinstance(n.target, ast.Name)]
    if len(inner) != 1:
        raise AnalysisError('TrieTree.find: expected one inner walk loop')
    inner = inner[0]
    i, j = outer.target.id, inner.target.id
    facts = _facts(idx, c.mod)
    got = []

    def on_construct(w, st, cname, argv, kwv, node):
        if cname == 'MatchResult':
            got.append((argv, node))
    st = State()
    st.vars.update({i: Unk(('var', i)), j: Unk(('var', j)), 'self': Unk(('var', 'self')), 'node': Unk(('var', 'node')),
                    [a.arg for a in fn.args.args if a.arg != 'self'][0]: Unk(('var', 'q'))})
    w = symx.Walker(fn, facts, lambda *a: None, c.name)
    w.on_construct = on_construct
    w.relevant = lambda node: True
    w.block(inner.body, st)
    if not got:
        raise AnalysisError('TrieTree.find: no MatchResult construction in the walk loop')
    for argv, node in got:
        a = as_lin(argv[0]) if argv else None
        b = as_lin(argv[1]) if len(argv) > 1 else None
        ok = a == Lin.atom(('var', i)) and b == Lin.atom(('var', j)) - Lin.atom(('var', i))
        chk.judge(ok, 'C16.trie-yield', c.mod.path, 'TrieTree.find yield', 'MatchResult(%r, %r)' % (a, b),
                  'TrieTree.find must yield MatchResult(i, j - i, ...) for the walk started at i; found (%r, %r)' % (a, b),
                  node.lineno)
    # root reset per start index, walk starts at i
    reset = any(isinstance(s, ast.Assign) and len(s.targets) == 1 and isinstance(s.targets[0], ast.Name)
                and s.targets[0].id == 'node' and ast.unparse(s.value) in ('self.root', 'self.__root', 'self._TrieTree__root')
                for s in outer.body[:outer.body.index(inner)])
    chk.judge(reset, 'C16.trie-yield', c.mod.path, 'TrieTree.find root reset', 'node = self.root before each walk',
              'TrieTree.find: the walk for each start index must restart at the root', outer.lineno)
    rng = inner.iter
    lo_ok = isinstance(rng, ast.Call) and isinstance(rng.func, ast.Name) and rng.func.id == 'range' and len(rng.args) == 2
    if lo_ok:
        lo = rng.args[0]
        # j = i; range(j, ...) or range(i, ...)
        alias = {i}
        for s in outer.body[:outer.body.index(inner)]:
            if isinstance(s, ast.Assign) and len(s.targets) == 1 and isinstance(s.targets[0], ast.Name) \
                    and isinstance(s.value, ast.Name) and s.value.id in alias:
                alias.add(s.targets[0].id)
        lo_ok = isinstance(lo, ast.Name) and lo.id in alias
    chk.judge(lo_ok, 'C16.trie-yield', c.mod.path, 'TrieTree.find walk start', 'inner range starts at the start index',
              'TrieTree.find: the inner walk must start at the start index i', inner.lineno)
    # the walk from i reaches the end of the query, or stops at a bound shown to cover every inserted phrase
    q = [a.arg for a in fn.args.args if a.arg != 'self'][0]
    ok_end, why = _walk_end(c, fn, outer, inner, i, q)
    chk.judge(ok_end, 'C16.trie-yield', c.mod.path, 'TrieTree.find walk end', why if ok_end else 'walk may stop early',
              'TrieTree.find: %s' % why, inner.lineno)
    # every start index is tried
    oi = outer.iter
    all_starts = isinstance(oi, ast.Call) and isinstance(oi.func, ast.Name) and oi.func.id == 'range' and (
        (len(oi.args) == 1 and ast.unparse(oi.args[0]) == 'len(%s)' % q) or
        (len(oi.args) == 2 and ast.unparse(oi.args[0]) == '0' and ast.unparse(oi.args[1]) == 'len(%s)' % q))
    chk.judge(all_starts, 'C16.trie-yield', c.mod.path, 'TrieTree.find start indices', 'range(0, len(query))',
              'TrieTree.find: the outer loop must try every start index 0..len(query)-1; found %s' % ast.unparse(oi), outer.lineno)


def _walk_end(c, fn, outer, inner, i, q):
    """(ok, explanation) for the upper bound of the inner walk `range(lo, hi)`: j must be able to reach len(q) (a phrase ending
    at the last token is yielded at j == len(q)), unless the walk is cut at i + self.<bound> and <bound> is maintained as the
    maximum length of the inserted phrases"""
    rng = inner.iter
    if not (isinstance(rng, ast.Call) and isinstance(rng.func, ast.Name) and rng.func.id == 'range' and len(rng.args) == 2):
        return False, 'the inner walk is not a two-argument range'
    hi = rng.args[1]
    full = {'len(%s) + 1' % q, '1 + len(%s)' % q}
    if ast.unparse(hi) in full:
        return True, 'walk runs to len(query) inclusive'
    # hi = <name> + 1 with <name> = min(len(q), i + self.<attr>) assigned before the walk
    if isinstance(hi, ast.BinOp) and isinstance(hi.op, ast.Add) and isinstance(hi.right, ast.Constant) and hi.right.value == 1:
        cut = hi.left
        if isinstance(cut, ast.Name):
            for st in outer.body[:outer.body.index(inner)]:
                if isinstance(st, ast.Assign) and len(st.targets) == 1 and isinstance(st.targets[0], ast.Name) \
                        and st.targets[0].id == cut.id:
                    cut = st.value
        if isinstance(cut, ast.Call) and isinstance(cut.func, ast.Name) and cut.func.id == 'min' and len(cut.args) == 2:
            args = [ast.unparse(a) for a in cut.args]
            other = [a for a in cut.args if ast.unparse(a) != 'len(%s)' % q]
            if 'len(%s)' % q in args and len(other) == 1:
                o = other[0]
                attr = None
                if isinstance(o, ast.BinOp) and isinstance(o.op, ast.Add):
                    for x, y in ((o.left, o.right), (o.right, o.left)):
                        if isinstance(x, ast.Name) and x.id == i and isinstance(y, ast.Attribute) and isinstance(y.value, ast.Name) \
                                and y.value.id == 'self':
                            attr = y.attr
                if attr:
                    ok, why = _bound_is_max_len(c, attr)
                    return ok, ('walk cut at i + self.%s: ' % attr) + why
    return False, 'the inner walk stops at %s, which is not shown to reach the end of the query or the longest inserted phrase: ' \
                  'a phrase that ends later is silently missed' % ast.unparse(hi)


def _bound_is_max_len(c, attr):
    """is self.<attr> written only as a constant in __init__ and as max(self.<attr>, L) in insert, with L = len(value) or a
    counter that is incremented once per item of `value` unconditionally?"""
    writes = []
    for name, f in c.methods.items():
        for n in ast.walk(f):
            if isinstance(n, (ast.Assign, ast.AugAssign)):
                tg = n.targets if isinstance(n, ast.Assign) else [n.target]
                for t in tg:
                    if isinstance(t, ast.Attribute) and isinstance(t.value, ast.Name) and t.value.id == 'self' and t.attr == attr:
                        writes.append((name, f, n))
    if not writes:
        return False, 'no write of self.%s found' % attr
    for name, f, n in writes:
        if name == '__init__' and isinstance(n, ast.Assign) and isinstance(n.value, ast.Constant):
            continue
        if name != 'insert' or not isinstance(n, ast.Assign):
            return False, 'self.%s is written in %s in a way the rule does not understand' % (attr, name)
        v = n.value
        if not (isinstance(v, ast.Call) and isinstance(v.func, ast.Name) and v.func.id == 'max' and len(v.args) == 2):
            return False, 'self.%s is not maintained as a maximum' % attr
        other = [a for a in v.args if not (isinstance(a, ast.Attribute) and a.attr == attr)]
        if len(other) != 1:
            return False, 'self.%s is not maintained as a maximum' % attr
        L = other[0]
        params = [a.arg for a in f.args.args if a.arg != 'self']
        seq = params[0] if params else None
        if ast.unparse(L) == 'len(%s)' % seq:
            continue
        if isinstance(L, ast.Name):
            loops = [x for x in f.body if isinstance(x, ast.For) and ast.unparse(x.iter) == seq]
            inits = [x for x in f.body if isinstance(x, ast.Assign) and len(x.targets) == 1 and isinstance(x.targets[0], ast.Name)
                     and x.targets[0].id == L.id and isinstance(x.value, ast.Constant) and x.value.value == 0]
            all_w = [x for x in ast.walk(f) if isinstance(x, (ast.Assign, ast.AugAssign)) and any(
                isinstance(t, ast.Name) and t.id == L.id for t in (x.targets if isinstance(x, ast.Assign) else [x.target]))]
            incs = [x for lp in loops for x in lp.body if isinstance(x, ast.AugAssign) and isinstance(x.target, ast.Name)
                    and x.target.id == L.id and isinstance(x.op, ast.Add) and isinstance(x.value, ast.Constant) and x.value.value == 1]
            if len(loops) == 1 and len(inits) == 1 and len(incs) == 1 and len(all_w) == 2:
                continue
            return False, ('the bound self.%s is raised to the counter `%s`, which is not incremented exactly once for every '
                           'token of the inserted phrase (e.g. only when a new node is created): a phrase that extends an '
                           'earlier one is longer than the bound and find() stops before reaching it' % (attr, L.id))
        return False, 'self.%s is raised to %s, not to the phrase length' % (attr, ast.unparse(L))
    return True, 'self.%s is the maximum inserted phrase length' % attr


def _toplevel_call(stmts, pred):
    """index of the first top-level statement that is an expression-call satisfying pred"""
    for i, st in enumerate(stmts):
        if isinstance(st, ast.Expr) and isinstance(st.value, ast.Call) and pred(st.value):
            return i
    return None


def _has_exit(stmts):
    return any(isinstance(n, (ast.Continue, ast.Break, ast.Return, ast.Raise)) for st in stmts for n in ast.walk(st))


def check_insert_all(chk, idx):
    """every (phrase, id) pair handed to the matcher reaches the trie: batch_insert inserts every index
    unconditionally, TrieTree.insert records the id at the node it walked to, Node.add_value appends"""
    rid = 'C16.insert-all'
    am = idx.cls('recognizers_text.matcher.abstract_matcher.AbstractMatcher')
    fn = am.methods.get('batch_insert')
    if fn is None:
        raise AnalysisError('anchor vanished: AbstractMatcher.batch_insert')
    chk.consulted(am.mod.path)
    params = [a.arg for a in fn.args.args if a.arg != 'self']
    loops = [n for n in fn.body if isinstance(n, ast.For)]
    ok = False
    why = 'no loop over the value/id pairs found'
    if len(params) >= 2 and len(loops) == 1:
        lp = loops[0]
        vals, ids = params[0], params[1]

        def is_insert(c):
            if not (isinstance(c.func, ast.Attribute) and c.func.attr == 'insert' and len(c.args) == 2):
                return False
            a, b = ast.unparse(c.args[0]), ast.unparse(c.args[1])
            if isinstance(lp.target, ast.Name):
                i = lp.target.id
                return a == '%s[%s]' % (vals, i) and b == '%s[%s]' % (ids, i)
            if isinstance(lp.target, ast.Tuple) and len(lp.target.elts) == 2:
                return [a, b] == [ast.unparse(e) for e in lp.target.elts]
            return False
        k = _toplevel_call(lp.body, is_insert)
        it = ast.unparse(lp.iter)
        full = it in ('range(0, len(%s))' % vals, 'range(len(%s))' % vals, 'range(0, len(%s))' % ids, 'range(len(%s))' % ids,
                      'zip(%s, %s)' % (vals, ids))
        if k is None:
            why = 'the loop body has no unconditional self.insert(%s[i], %s[i])' % (vals, ids)
        elif _has_exit(lp.body[:k]):
            why = 'an iteration can leave the loop body (continue/break/return) before the pair is inserted'
        elif not full:
            why = 'the loop does not range over every index (%s)' % it
        else:
            ok = True
            why = 'every index inserted'
    chk.judge(ok, rid, am.mod.path, 'AbstractMatcher.batch_insert', why,
              'AbstractMatcher.batch_insert: %s - a phrase (or one of the ids it is listed under) never reaches the trie, so '
              'find misses it or reports incomplete canonical ids' % why, fn.lineno)
    tt = idx.cls('recognizers_text.matcher.trie_tree.TrieTree')
    fn = tt.methods.get('insert')
    if fn is None:
        raise AnalysisError('anchor vanished: TrieTree.insert')
    params = [a.arg for a in fn.args.args if a.arg != 'self']
    loops = [(i, n) for i, n in enumerate(fn.body) if isinstance(n, ast.For)]
    ok = False
    why = 'shape not recognised'
    if len(params) == 2 and len(loops) == 1:
        li, lp = loops[0]
        walks = ast.unparse(lp.iter) == params[0]
        k = _toplevel_call(fn.body[li + 1:], lambda c: isinstance(c.func, ast.Attribute) and c.func.attr == 'add_value'
                           and len(c.args) == 1 and ast.unparse(c.args[0]) == params[1])
        advance = any(isinstance(st, ast.Assign) and len(st.targets) == 1 and isinstance(st.targets[0], ast.Name)
                      and st.targets[0].id == 'node' for st in lp.body) and not _has_exit(lp.body)
        if not walks:
            why = 'the walk does not iterate over the phrase tokens'
        elif k is None or _has_exit(fn.body[li + 1:li + 1 + (k or 0)]):
            why = 'the id is not recorded unconditionally at the node the walk ends in'
        elif not advance:
            why = 'the walk does not advance to the child node on every token'
        else:
            ok = True
            why = 'walks every token, advances, records the id'
    chk.judge(ok, rid, tt.mod.path, 'TrieTree.insert', why,
              'TrieTree.insert: %s - an inserted phrase is not (fully) retrievable' % why, fn.lineno)
    nd = idx.cls('recognizers_text.matcher.node.Node')
    fn = nd.methods.get('add_value')
    if fn is None:
        raise AnalysisError('anchor vanished: Node.add_value')
    p0 = [a.arg for a in fn.args.args if a.arg != 'self'][0]
    k = _toplevel_call(fn.body, lambda c: isinstance(c.func, ast.Attribute) and c.func.attr == 'append' and len(c.args) == 1
                       and ast.unparse(c.args[0]) == p0)
    ok = k is not None and not _has_exit(fn.body[:k])
    chk.judge(ok, rid, nd.mod.path, 'Node.add_value', 'appends the id unconditionally' if ok else 'no unconditional append',
              'Node.add_value does not append every id unconditionally: a phrase listed under several ids keeps only some of '
              'them (canonical ids incomplete)', fn.lineno)


CONTROL = '''
class T:
    def tokenize(self, input):
        tokens = []
        in_token = False
        token_start = 0
        chars = list(input)
        for i in range(0, len(chars)):
            c = chars[i]
            if str.isspace(c):
                if in_token:
                    tokens.append(Token(token_start, i - token_start, input[token_start: i]))
            elif not str.isalpha(c):
                if in_token:
                    tokens.append(Token(token_start, i - token_start, input[token_start: i]))
                    in_token = False
                tokens.append(Token(i, 1, input[i: i + 2]))
            else:
                if not in_token:
                    token_start = i
                    in_token = True
        if in_token:
            tokens.append(Token(token_start, len(chars) - token_start, input[token_start:len(chars)]))
        return tokens
'''


def run(chk):
    idx = get_index()
    chk.explanation = ('offset algebra on the tokenizers (token text = slice; per-branch flush accounting of the scanner '
                       'loop), on StringMatcher.find\'s index-to-offset mapping, on init\'s key pairing and on the trie yield')
    chk.rule('C16.token-slice', 'Token(a, b, input[c:d]) has c == a and d == a + b', floor=9, control=True)
    chk.rule('C16.flush', 'scanner-loop flush accounting per branch x in_token', floor=14, control=True)
    chk.rule('C16.find-map', 'StringMatcher.find token-index to character-offset mapping', floor=3)
    chk.rule('C16.init-pairs', 'dict form of init pairs each value with its own key', floor=1)
    chk.rule('C16.trie-yield', 'TrieTree.find yields (i, j - i) for the walk from i; every start is tried and every walk reaches the end of the query (or a proven phrase-length bound)', floor=5)
    chk.rule('C16.insert-all', 'every (phrase, id) pair reaches the trie: batch_insert, TrieTree.insert, Node.add_value', floor=3)
    for q in TOKENIZERS:
        check_tokenizer(chk, idx, q)
    check_find(chk, idx)
    check_init_pairs(chk, idx)
    check_trie(chk, idx)
    check_insert_all(chk, idx)
    # positive control: a tokenizer that forgets `in_token = False` after a whitespace flush and mis-slices a separator
    ctl = ast.parse(CONTROL).body[0].body[0]
    tm = idx.mod('recognizers_text.matcher.simple_tokenizer')

    class _Ctl:
        def __init__(self):
            self.bad = []
            self.rules = chk.rules

        def judge(self, cond, rule, *a, **k):
            if not cond:
                self.bad.append(rule)

        def bad_(self, rule, *a, **k):
            self.bad.append(rule)

        def consulted(self, p):
            pass
    c2 = _Ctl()
    c2.bad_ = c2.bad_
    c2.__dict__['bad'] = c2.bad
    shim = type('S', (), {'judge': c2.judge, 'bad': lambda self, rule, *a, **k: c2.bad.append(rule), 'consulted': lambda self, p: None})()
    check_tokenizer(shim, idx, None, (ctl, _facts(idx, tm), tm.path, 'control'))
    chk.control('C16.flush', 'C16.flush' in c2.bad)
    chk.control('C16.token-slice', 'C16.token-slice' in c2.bad)
    chk.exhaustive = True
    chk.assume('Token/MatchResult .end == start + length is read from the class property; the walk of the trie itself '
               '(which children exist) is not decided')


META = {
    'text': 'Offset algebra and per-branch accounting over the two tokenizers and the matcher front end: every Token text '
            'is the slice its (start, length) names; each branch of the scanner loop, for in_token true and false, emits '
            'exactly the pending interval and/or the current character and re-establishes the (in_token, token_start) '
            'invariant, and the epilogue flushes - hence tokens are ordered, disjoint and cover every non-space character '
            'once; StringMatcher.find maps token indices back to character offsets correctly; init pairs values with '
            'their own keys; the trie yields (i, j - i). A finite case analysis, complete for the clauses named.',
    'note': 'Not decided: the trie walk over arbitrary dictionaries (which children exist, no misses / no extras beyond '
            'the yield arithmetic) and canonical-id semantics; which characters fall into which branch (is_cjk tables). '
            'Trusted: sa/symx.py linear normal forms; Token.end/MatchResult.end read from the class properties.',
    'technique': 'symbolic offset algebra with exhaustive per-branch case analysis of the scanner loop',
}
