"""C16 - tokenizers and dictionary matcher (offset algebra).

C16.token-slice   every Token(a, b, input[c:d]) built by the tokenizers has c == a and d == a + b
C16.flush         per branch of the scanner loop x in_token in {T, F}: the emitted intervals are exactly the pending
                  interval [token_start, i) and/or [i, i+1), and the (in_token, token_start) invariant is re-established;
                  the epilogue flushes [token_start, len)
C16.find-map      StringMatcher.find maps token indices back: end token index = r.start + r.length - 1,
                  start = start_token.start, length = end_token.end - start_token.start, text = query[start:start+length]
C16.init-pairs    the dict form of StringMatcher.init pairs every value with its own key
C16.trie-yield    TrieTree.find yields MatchResult(i, j - i, ...) for the walk that started at i, root reset per start
"""
import ast

from ..core import AnalysisError
from ..index import get_index
from .. import symx, spans
from ..symx import Lin, SStr, Unk, ObjRef, State, as_lin, as_str, as_obj

LEVEL = 'other'

TOKENIZERS = ['recognizers_text.matcher.simple_tokenizer.SimpleTokenizer',
              'recognizers_text.matcher.number_with_unit_tokenizer.NumberWithUnitTokenizer']


def _facts(idx, mod):
    f = symx.facts_from_index(idx, mod, ['Token', 'MatchResult'])
    if 'Token' not in f.ctors:
        # the matcher front end handles tokens of recognizers_text.matcher.token without importing the class
        symx._class_facts(idx, idx.cls('recognizers_text.matcher.token.Token'), f)
    f.method_types['tokenize'] = 'List[Token]'
    return f


def branches_of(ifnode):
    """if/elif/else chain -> list of (test or None, body)"""
    out = []
    cur = ifnode
    while True:
        out.append((cur.test, cur.body))
        if len(cur.orelse) == 1 and isinstance(cur.orelse[0], ast.If) and cur.orelse[0].col_offset == ifnode.col_offset:
            cur = cur.orelse[0]
            continue
        if cur.orelse:
            out.append((None, cur.orelse))
        break
    return out


def check_tokenizer(chk, idx, qual, snippet=None):
    if snippet is None:
        c = idx.cls(qual)
        if 'tokenize' not in c.methods:
            raise AnalysisError('anchor vanished: %s.tokenize' % qual)
        fn = c.methods['tokenize']
        mod = c.mod
        path = mod.path
        name = c.name
        facts = _facts(idx, mod)
        chk.consulted(path)
    else:
        fn, facts, path, name = snippet
    if 'Token' not in facts.ctors:
        raise AnalysisError('%s: Token class not resolvable' % name)
    params = [a.arg for a in fn.args.args if a.arg != 'self']
    if not params:
        raise AnalysisError('%s.tokenize has no input parameter' % name)
    inp = params[0]
    # the flush accounting counts Token(...) constructions handed to the result list; a tokenizer that builds its tokens another
    # way (an alternative constructor, a helper) is outside this argument and is decided by the tabulation instead
    for n_ in ast.walk(fn):
        if isinstance(n_, ast.Call) and isinstance(n_.func, ast.Attribute) and n_.func.attr in ('append', 'extend', 'insert') \
                and n_.args and not (isinstance(n_.args[-1], ast.Call) and isinstance(n_.args[-1].func, ast.Name)
                                     and n_.args[-1].func.id == 'Token'):
            raise AnalysisError('%s.tokenize hands %s to its result list, not a Token(...) construction'
                                % (name, ast.unparse(n_.args[-1])[:60]))
    loops = [n for n in fn.body if isinstance(n, ast.For)]
    if len(loops) != 1:
        raise AnalysisError('%s.tokenize: expected exactly one scanner loop' % name)
    loop = loops[0]
    if isinstance(loop.target, ast.Name):
        ivar = loop.target.id
    elif isinstance(loop.target, ast.Tuple) and len(loop.target.elts) == 2 and all(isinstance(t, ast.Name) for t in loop.target.elts) \
            and isinstance(loop.iter, ast.Call) and isinstance(loop.iter.func, ast.Name) and loop.iter.func.id == 'enumerate' \
            and len(loop.iter.args) == 1:
        ivar = loop.target.elts[0].id            # for i, c in enumerate(chars): same index variable, c = chars[i] implied
    else:
        raise AnalysisError('%s.tokenize: scanner loop target not understood' % name)
    # names: chars = list(input) alias; `c = chars[i]`
    ifs = [s for s in loop.body if isinstance(s, ast.If)]
    if len(ifs) != 1:
        raise AnalysisError('%s.tokenize: expected one if/elif/else chain in the scanner loop' % name)
    brs = branches_of(ifs[0])
    if len(brs) != 3 or brs[2][0] is not None:
        raise AnalysisError('%s.tokenize: expected space / separator / token-character branches, found %d' % (name, len(brs)))
    if 'isspace' not in ast.unparse(brs[0][0]):
        raise AnalysisError('%s.tokenize: first branch is not the whitespace test' % name)
    kinds = ['space', 'separator', 'char']
    violations = []

    def run_region(stmts, in_token):
        log = []

        def on_construct(w, st, cname, argv, kwv, node):
            if cname == 'Token':
                st.log.append((argv, node))
        st = State()
        for p in params:
            st.vars[p] = Unk(('var', p))
        st.vars[ivar] = Unk(('var', ivar))
        st.vars['token_start'] = Unk(('var', 'token_start'))
        st.vars['in_token'] = Unk(('var', 'in_token'))
        st.tri['in_token'] = frozenset(['truthy']) if in_token else frozenset(['falsy'])
        st.vars['tokens'] = Unk(('var', 'tokens'))
        st.vars['chars'] = st.vars[inp]       # chars = list(input) (checked below): same length, same indices
        st.vars['c'] = Unk(('var', 'c'))
        st.vars['self'] = Unk(('var', 'self'))
        w = symx.Walker(fn, facts, lambda *a: None, name)
        w.on_construct = on_construct
        # treat every If in the region as relevant
        w.relevant = lambda node: True
        return w.block(stmts, st), w

    I = Lin.atom(('var', ivar))
    TS = Lin.atom(('var', 'token_start'))
    INP = ('var', inp)

    def token_ok(argv, node, where):
        """C16.token-slice on one construction; returns (start, length) Lin"""
        if len(argv) < 3:
            violations.append((node.lineno, where, 'Token built with %d arguments' % len(argv)))
            return None
        a, b, t = as_lin(argv[0]), as_lin(argv[1]), as_str(argv[2])
        ok = t.kind == 'slice' and t.base.kind == 'base' and t.base.id == INP and not t.stripped \
            and t.a == a and t.b is not None and t.b == a + b
        chk.judge(ok, 'C16.token-slice', path, '%s.tokenize %s' % (name, where),
                  'Token(%r, %r, %r)' % (a, b, t),
                  '%s.tokenize builds Token(start=%r, length=%r) with text %r: the text is not input[start:start+length]'
                  % (name, a, b, t), node.lineno)
        return (a, b)

    n_shapes = 0
    for bi, (test, body) in enumerate(brs):
        kind = kinds[bi]
        for in_token in (True, False):
            outs, w = run_region(body, in_token)
            for st, status, node in outs:
                if status != 'fall':
                    violations.append((getattr(node, 'lineno', loop.lineno), kind, 'unexpected %s in the scanner loop' % status))
                    continue
                emitted = []
                for argv, nd in st.log:
                    r = token_ok(argv, nd, '%s branch, in_token=%s' % (kind, in_token))
                    if r:
                        emitted.append(r)
                out_in = st.tri.get('in_token')
                ts_after = as_lin(st.vars['token_start'])
                pend = (TS, I - TS)
                single = (I, Lin(1))
                ok = False
                why = ''
                if kind == 'space':
                    want = [pend] if in_token else []
                    ok = emitted == want and out_in == frozenset(['falsy'])
                    why = 'whitespace must flush the pending token (if any), emit nothing else and leave in_token False'
                elif kind == 'separator':
                    want = ([pend] if in_token else []) + [single]
                    ok = emitted == want and out_in == frozenset(['falsy'])
                    why = 'a separator must flush the pending token (if any), emit itself as Token(i, 1) and leave in_token False'
                else:
                    if not in_token:
                        ok = emitted == [] and out_in == frozenset(['truthy']) and ts_after == I
                        why = 'a token character outside a token must open one at i (token_start = i, in_token = True)'
                    else:
                        cont = emitted == [] and ts_after == TS
                        split = emitted == [pend] and ts_after == I
                        ok = (cont or split) and out_in == frozenset(['truthy'])
                        why = 'a token character inside a token must either continue it or split: flush [token_start, i) and restart at i'
                n_shapes += 1
                detail = '%s in_token=%s emits %s -> in_token %s token_start %r' % (
                    kind, in_token, [(repr(a), repr(b)) for a, b in emitted],
                    'T' if out_in == frozenset(['truthy']) else 'F' if out_in == frozenset(['falsy']) else '?', ts_after)
                chk.judge(ok, 'C16.flush', path, '%s.tokenize %s/in_token=%s' % (name, kind, in_token), detail,
                          '%s.tokenize: %s; found: %s' % (name, why, detail), loop.lineno)
    # epilogue: statements after the loop
    after = fn.body[fn.body.index(loop) + 1:]
    LEN = symx.slen(SStr('base', id=INP))
    for in_token in (True, False):
        outs, w = run_region(after, in_token)
        for st, status, node in outs:
            emitted = []
            for argv, nd in st.log:
                r = token_ok(argv, nd, 'epilogue, in_token=%s' % in_token)
                if r:
                    emitted.append(r)
            # len(chars) == len(input): chars = list(input)
            norm = []
            for a, b in emitted:
                norm.append((a, b))
            want = [(TS, LEN - TS)] if in_token else []
            alt = [(TS, Lin.atom(('len', "?chars")) - TS)] if in_token else []
            ok = norm == want or [(repr(a), repr(b).replace('len(?chars)', 'len(%s)' % inp)) for a, b in norm] == \
                [(repr(a), repr(b)) for a, b in want]
            detail = 'epilogue in_token=%s emits %s' % (in_token, [(repr(a), repr(b)) for a, b in emitted])
            chk.judge(ok, 'C16.flush', path, '%s.tokenize epilogue/in_token=%s' % (name, in_token), detail,
                      '%s.tokenize: after the loop the pending token [token_start, len) must be flushed exactly when '
                      'in_token; found: %s' % (name, detail), loop.lineno)
    # chars must be list(input) so that len(chars) == len(input)
    chars_ok = any(isinstance(s, ast.Assign) and len(s.targets) == 1 and isinstance(s.targets[0], ast.Name)
                   and s.targets[0].id == 'chars' and isinstance(s.value, ast.Call) and isinstance(s.value.func, ast.Name)
                   and s.value.func.id == 'list' and len(s.value.args) == 1 and isinstance(s.value.args[0], ast.Name)
                   and s.value.args[0].id == inp for s in fn.body)
    uses_chars = any(isinstance(n, ast.Name) and n.id == 'chars' for n in ast.walk(fn))
    if uses_chars:
        chk.judge(chars_ok, 'C16.flush', path, '%s.tokenize chars' % name, 'chars = list(%s)' % inp,
                  '%s.tokenize: `chars` is not list(%s); character indices would not be offsets into the input' % (name, inp),
                  fn.lineno)
    for v in violations:
        chk.bad('C16.flush', path, '%s.tokenize' % name, v[2], '%s.tokenize: %s (%s branch)' % (name, v[2], v[1]), v[0])
    return n_shapes


def check_find(chk, idx):
    c = idx.cls('recognizers_text.matcher.string_matcher.StringMatcher')
    if 'find' not in c.methods:
        raise AnalysisError('anchor vanished: StringMatcher.find')
    fn = c.methods['find']
    chk.consulted(c.mod.path)
    facts = _facts(idx, c.mod)
    seen = []

    def on_check(w, st, oid, flds, node, why):
        if st.objcls.get(oid) != 'MatchResult':
            return
        seen.append((st, oid, node))

    w = symx.Walker(fn, facts, on_check, c.name)
    w.run()
    if not seen:
        raise AnalysisError('StringMatcher.find: no MatchResult construction found')
    q = [a.arg for a in fn.args.args if a.arg != 'self'][0]
    for st, oid, node in seen:
        s = as_lin(w.field(st, oid, 'start'))
        l = as_lin(w.field(st, oid, 'length'))
        t = as_str(w.field(st, oid, 'text'))
        # expected: tokens T = tokenize(q); r iterates the token-level matches
        v = spans.judge_text(w, st, t, s, l, 0, oid)
        ok_text = v[0] == 'ok' and t.kind == 'slice' and t.base.kind == 'base' and t.base.id == ('var', q)
        chk.judge(ok_text, 'C16.find-map', c.mod.path, 'StringMatcher.find text', repr(t) if not ok_text else 'query[start:start+length]',
                  'StringMatcher.find: MatchResult text is not query[start:start+length] (%s)' % v[1], getattr(node, 'lineno', fn.lineno))
        # index mapping, read off the atoms of start and length
        st_atoms = list(s.t.items())
        ok_start = len(st_atoms) == 1 and st_atoms[0][1] == 1 and s.c == 0 and isinstance(st_atoms[0][0], tuple) \
            and st_atoms[0][0][0] == 'fld' and st_atoms[0][0][2] == 'start' and isinstance(st_atoms[0][0][1], tuple) \
            and st_atoms[0][0][1][0] == 'item'
        start_idx = st_atoms[0][0][1][2] if ok_start else None
        chk.judge(ok_start, 'C16.find-map', c.mod.path, 'StringMatcher.find start', repr(s),
                  'StringMatcher.find: start is not the start offset of the first matched token (%r)' % s, getattr(node, 'lineno', 0))
        # length = end_tok.start + end_tok.length - start_tok.start with end index = start index + r.length - 1
        pos = [(a, k) for a, k in l.t.items() if k == 1]
        neg = [(a, k) for a, k in l.t.items() if k == -1]
        ok_len = False
        detail = repr(l)
        if ok_start and len(neg) == 1 and neg[0][0] == st_atoms[0][0] and l.c == 0 and len(pos) == 2:
            flds = sorted(a[2] for a, _ in pos if isinstance(a, tuple) and a[0] == 'fld')
            objs = {repr(a[1]) for a, _ in pos if isinstance(a, tuple) and a[0] == 'fld'}
            if flds == ['length', 'start'] and len(objs) == 1:
                end_obj = [a[1] for a, _ in pos][0]
                if isinstance(end_obj, tuple) and end_obj[0] == 'item' and end_obj[1] == st_atoms[0][0][1][1]:
                    # index algebra: end index - start index == r.length - 1
                    try:
                        ei, si = end_obj[2], start_idx
                        d = _key_to_lin(ei) - _key_to_lin(si)
                        names = [a for a in d.t]
                        ok_len = d.c == -1 and len(names) == 1 and d.t[names[0]] == 1 and isinstance(names[0], tuple) \
                            and names[0][0] == 'fld' and names[0][2] == 'length'
                        detail = 'end index - start index = %r' % d
                    except Exception:
                        ok_len = False
        chk.judge(ok_len, 'C16.find-map', c.mod.path, 'StringMatcher.find length', detail,
                  'StringMatcher.find: length is not end_token.end - start_token.start with end token index '
                  'r.start + r.length - 1 (%s)' % detail, getattr(node, 'lineno', 0))


def _key_to_lin(k):
    """Lin.key() -> Lin (atoms are their repr strings; only differences are inspected)"""
    c, items = k
    t = {}
    for name, coef in items:
        t[_ReprAtom(name)] = coef
    return Lin(c, t)


class _ReprAtom(tuple):
    """atom restored from repr text: behaves like the original tuple for display and equality"""

    def __new__(cls, text):
        try:
            val = ast.literal_eval(text)
        except Exception:
            val = (text,)
        if not isinstance(val, tuple):
            val = (val,)
        return super().__new__(cls, val)


def check_init_pairs(chk, idx):
    c = idx.cls('recognizers_text.matcher.string_matcher.StringMatcher')
    fn = c.methods.get('init')
    if fn is None:
        raise AnalysisError('anchor vanished: StringMatcher.init')
    found = 0
    for outer in ast.walk(fn):
        if not (isinstance(outer, ast.For) and isinstance(outer.target, ast.Name)):
            continue
        for inner in outer.body:
            if not (isinstance(inner, ast.For) and isinstance(inner.target, ast.Name)):
                continue
            # aliases of the outer key inside the outer body
            key_names = {outer.target.id}
            for s in outer.body:
                if isinstance(s, ast.Assign) and len(s.targets) == 1 and isinstance(s.targets[0], ast.Name) \
                        and isinstance(s.value, ast.Name) and s.value.id in key_names:
                    key_names.add(s.targets[0].id)
            it = inner.iter
            iter_ok = isinstance(it, ast.Subscript) and isinstance(it.slice, ast.Name) and it.slice.id in key_names \
                and ast.unparse(it.value) == ast.unparse(outer.iter)
            apps = [s.value for s in inner.body if isinstance(s, ast.Expr) and isinstance(s.value, ast.Call)
                    and isinstance(s.value.func, ast.Attribute) and s.value.func.attr == 'append' and len(s.value.args) == 1]
            val_apps = [a for a in apps if isinstance(a.args[0], ast.Name) and a.args[0].id == inner.target.id]
            key_apps = [a for a in apps if isinstance(a.args[0], ast.Name) and a.args[0].id in key_names]
            found += 1
            ok = iter_ok and len(val_apps) == 1 and len(key_apps) == 1 and len(apps) == 2
            lists = (ast.unparse(val_apps[0].func.value) if val_apps else '?', ast.unparse(key_apps[0].func.value) if key_apps else '?')
            # the two lists must be handed on as (values, ids) in that order
            handed = False
            for n in ast.walk(fn):
                if isinstance(n, ast.Call) and len(n.args) == 2 and all(isinstance(a, ast.Name) for a in n.args) \
                        and (n.args[0].id, n.args[1].id) == lists:
                    handed = True
            chk.judge(ok and handed, 'C16.init-pairs', c.mod.path, 'StringMatcher.init dict form',
                      'values->%s keys->%s paired per inner iteration, handed on in order: %s' % (lists[0], lists[1], handed),
                      'StringMatcher.init (dict form): each value of values[key] must be appended together with its own '
                      'key, and the two lists passed on as (values, ids)', outer.lineno)
    if not found:
        raise AnalysisError('StringMatcher.init: dict-form nested loop not found')


def check_trie(chk, idx):
    c = idx.cls('recognizers_text.matcher.trie_tree.TrieTree')
    fn = c.methods.get('find')
    if fn is None:
        raise AnalysisError('anchor vanished: TrieTree.find')
    chk.consulted(c.mod.path)
    outer = [n for n in fn.body if isinstance(n, ast.For) and isinstance(n.target, ast.Name)]
    if len(outer) != 1:
        raise AnalysisError('TrieTree.find: expected one outer loop over start indices')
    outer = outer[0]
    inner = [n for n in outer.body if isinstance(n, ast.For) and isinstance(n.target, ast.Name)]
    if len(inner) != 1:
        raise AnalysisError('TrieTree.find: expected one inner walk loop')
    inner = inner[0]
    i, j = outer.target.id, inner.target.id
    facts = _facts(idx, c.mod)
    got = []

    def on_construct(w, st, cname, argv, kwv, node):
        if cname == 'MatchResult':
            got.append((argv, node))
    st = State()
    st.vars.update({i: Unk(('var', i)), j: Unk(('var', j)), 'self': Unk(('var', 'self')), 'node': Unk(('var', 'node')),
                    [a.arg for a in fn.args.args if a.arg != 'self'][0]: Unk(('var', 'q'))})
    w = symx.Walker(fn, facts, lambda *a: None, c.name)
    w.on_construct = on_construct
    w.relevant = lambda node: True
    w.block(inner.body, st)
    if not got:
        raise AnalysisError('TrieTree.find: no MatchResult construction in the walk loop')
    for argv, node in got:
        a = as_lin(argv[0]) if argv else None
        b = as_lin(argv[1]) if len(argv) > 1 else None
        ok = a == Lin.atom(('var', i)) and b == Lin.atom(('var', j)) - Lin.atom(('var', i))
        chk.judge(ok, 'C16.trie-yield', c.mod.path, 'TrieTree.find yield', 'MatchResult(%r, %r)' % (a, b),
                  'TrieTree.find must yield MatchResult(i, j - i, ...) for the walk started at i; found (%r, %r)' % (a, b),
                  node.lineno)
    # root reset per start index, walk starts at i
    reset = any(isinstance(s, ast.Assign) and len(s.targets) == 1 and isinstance(s.targets[0], ast.Name)
                and s.targets[0].id == 'node' and ast.unparse(s.value) in ('self.root', 'self.__root', 'self._TrieTree__root')
                for s in outer.body[:outer.body.index(inner)])
    chk.judge(reset, 'C16.trie-yield', c.mod.path, 'TrieTree.find root reset', 'node = self.root before each walk',
              'TrieTree.find: the walk for each start index must restart at the root', outer.lineno)
    rng = inner.iter
    lo_ok = isinstance(rng, ast.Call) and isinstance(rng.func, ast.Name) and rng.func.id == 'range' and len(rng.args) == 2
    if lo_ok:
        lo = rng.args[0]
        # j = i; range(j, ...) or range(i, ...)
        alias = {i}
        for s in outer.body[:outer.body.index(inner)]:
            if isinstance(s, ast.Assign) and len(s.targets) == 1 and isinstance(s.targets[0], ast.Name) \
                    and isinstance(s.value, ast.Name) and s.value.id in alias:
                alias.add(s.targets[0].id)
        lo_ok = isinstance(lo, ast.Name) and lo.id in alias
    chk.judge(lo_ok, 'C16.trie-yield', c.mod.path, 'TrieTree.find walk start', 'inner range starts at the start index',
              'TrieTree.find: the inner walk must start at the start index i', inner.lineno)
    # the walk from i reaches the end of the query, or stops at a bound shown to cover every inserted phrase
    q = [a.arg for a in fn.args.args if a.arg != 'self'][0]
    ok_end, why = _walk_end(c, fn, outer, inner, i, q)
    chk.judge(ok_end, 'C16.trie-yield', c.mod.path, 'TrieTree.find walk end', why if ok_end else 'walk may stop early',
              'TrieTree.find: %s' % why, inner.lineno)
    # every start index is tried
    oi = outer.iter
    all_starts = isinstance(oi, ast.Call) and isinstance(oi.func, ast.Name) and oi.func.id == 'range' and (
        (len(oi.args) == 1 and ast.unparse(oi.args[0]) == 'len(%s)' % q) or
        (len(oi.args) == 2 and ast.unparse(oi.args[0]) == '0' and ast.unparse(oi.args[1]) == 'len(%s)' % q))
    chk.judge(all_starts, 'C16.trie-yield', c.mod.path, 'TrieTree.find start indices', 'range(0, len(query))',
              'TrieTree.find: the outer loop must try every start index 0..len(query)-1; found %s' % ast.unparse(oi), outer.lineno)


def _walk_end(c, fn, outer, inner, i, q):
    """(ok, explanation) for the upper bound of the inner walk `range(lo, hi)`: j must be able to reach len(q) (a phrase ending
    at the last token is yielded at j == len(q)), unless the walk is cut at i + self.<bound> and <bound> is maintained as the
    maximum length of the inserted phrases"""
    rng = inner.iter
    if not (isinstance(rng, ast.Call) and isinstance(rng.func, ast.Name) and rng.func.id == 'range' and len(rng.args) == 2):
        return False, 'the inner walk is not a two-argument range'
    hi = rng.args[1]
    full = {'len(%s) + 1' % q, '1 + len(%s)' % q}
    if ast.unparse(hi) in full:
        return True, 'walk runs to len(query) inclusive'
    # hi = <name> + 1 with <name> = min(len(q), i + self.<attr>) assigned before the walk
    if isinstance(hi, ast.BinOp) and isinstance(hi.op, ast.Add) and isinstance(hi.right, ast.Constant) and hi.right.value == 1:
        cut = hi.left
        if isinstance(cut, ast.Name):
            for st in outer.body[:outer.body.index(inner)]:
                if isinstance(st, ast.Assign) and len(st.targets) == 1 and isinstance(st.targets[0], ast.Name) \
                        and st.targets[0].id == cut.id:
                    cut = st.value
        if isinstance(cut, ast.Call) and isinstance(cut.func, ast.Name) and cut.func.id == 'min' and len(cut.args) == 2:
            args = [ast.unparse(a) for a in cut.args]
            other = [a for a in cut.args if ast.unparse(a) != 'len(%s)' % q]
            if 'len(%s)' % q in args and len(other) == 1:
                o = other[0]
                attr = None
                if isinstance(o, ast.BinOp) and isinstance(o.op, ast.Add):
                    for x, y in ((o.left, o.right), (o.right, o.left)):
                        if isinstance(x, ast.Name) and x.id == i and isinstance(y, ast.Attribute) and isinstance(y.value, ast.Name) \
                                and y.value.id == 'self':
                            attr = y.attr
                if attr:
                    ok, why = _bound_is_max_len(c, attr)
                    return ok, ('walk cut at i + self.%s: ' % attr) + why
    return False, 'the inner walk stops at %s, which is not shown to reach the end of the query or the longest inserted phrase: ' \
                  'a phrase that ends later is silently missed' % ast.unparse(hi)


def _bound_is_max_len(c, attr):
    """is self.<attr> written only as a constant in __init__ and as max(self.<attr>, L) in insert, with L = len(value) or a
    counter that is incremented once per item of `value` unconditionally?"""
    writes = []
    for name, f in c.methods.items():
        for n in ast.walk(f):
            if isinstance(n, (ast.Assign, ast.AugAssign)):
                tg = n.targets if isinstance(n, ast.Assign) else [n.target]
                for t in tg:
                    if isinstance(t, ast.Attribute) and isinstance(t.value, ast.Name) and t.value.id == 'self' and t.attr == attr:
                        writes.append((name, f, n))
    if not writes:
        return False, 'no write of self.%s found' % attr
    for name, f, n in writes:
        if name == '__init__' and isinstance(n, ast.Assign) and isinstance(n.value, ast.Constant):
            continue
        if name != 'insert' or not isinstance(n, ast.Assign):
            return False, 'self.%s is written in %s in a way the rule does not understand' % (attr, name)
        v = n.value
        if not (isinstance(v, ast.Call) and isinstance(v.func, ast.Name) and v.func.id == 'max' and len(v.args) == 2):
            return False, 'self.%s is not maintained as a maximum' % attr
        other = [a for a in v.args if not (isinstance(a, ast.Attribute) and a.attr == attr)]
        if len(other) != 1:
            return False, 'self.%s is not maintained as a maximum' % attr
        L = other[0]
        params = [a.arg for a in f.args.args if a.arg != 'self']
        seq = params[0] if params else None
        if ast.unparse(L) == 'len(%s)' % seq:
            continue
        if isinstance(L, ast.Name):
            loops = [x for x in f.body if isinstance(x, ast.For) and ast.unparse(x.iter) == seq]
            inits = [x for x in f.body if isinstance(x, ast.Assign) and len(x.targets) == 1 and isinstance(x.targets[0], ast.Name)
                     and x.targets[0].id == L.id and isinstance(x.value, ast.Constant) and x.value.value == 0]
            all_w = [x for x in ast.walk(f) if isinstance(x, (ast.Assign, ast.AugAssign)) and any(
                isinstance(t, ast.Name) and t.id == L.id for t in (x.targets if isinstance(x, ast.Assign) else [x.target]))]
            incs = [x for lp in loops for x in lp.body if isinstance(x, ast.AugAssign) and isinstance(x.target, ast.Name)
                    and x.target.id == L.id and isinstance(x.op, ast.Add) and isinstance(x.value, ast.Constant) and x.value.value == 1]
            if len(loops) == 1 and len(inits) == 1 and len(incs) == 1 and len(all_w) == 2:
                continue
            return False, ('the bound self.%s is raised to the counter `%s`, which is not incremented exactly once for every '
                           'token of the inserted phrase (e.g. only when a new node is created): a phrase that extends an '
                           'earlier one is longer than the bound and find() stops before reaching it' % (attr, L.id))
        return False, 'self.%s is raised to %s, not to the phrase length' % (attr, ast.unparse(L))
    return True, 'self.%s is the maximum inserted phrase length' % attr


def _toplevel_call(stmts, pred):
    """index of the first top-level statement that is an expression-call satisfying pred"""
    for i, st in enumerate(stmts):
        if isinstance(st, ast.Expr) and isinstance(st.value, ast.Call) and pred(st.value):
            return i
    return None


def _has_exit(stmts):
    return any(isinstance(n, (ast.Continue, ast.Break, ast.Return, ast.Raise)) for st in stmts for n in ast.walk(st))


def check_insert_all(chk, idx):
    """every (phrase, id) pair handed to the matcher reaches the trie: batch_insert inserts every index
    unconditionally, TrieTree.insert records the id at the node it walked to, Node.add_value appends"""
    rid = 'C16.insert-all'
    am = idx.cls('recognizers_text.matcher.abstract_matcher.AbstractMatcher')
    fn = am.methods.get('batch_insert')
    if fn is None:
        raise AnalysisError('anchor vanished: AbstractMatcher.batch_insert')
    chk.consulted(am.mod.path)
    params = [a.arg for a in fn.args.args if a.arg != 'self']
    loops = [n for n in fn.body if isinstance(n, ast.For)]
    ok = False
    why = 'no loop over the value/id pairs found'
    if len(params) >= 2 and len(loops) == 1:
        lp = loops[0]
        vals, ids = params[0], params[1]

        def is_insert(c):
            if not (isinstance(c.func, ast.Attribute) and c.func.attr == 'insert' and len(c.args) == 2):
                return False
            a, b = ast.unparse(c.args[0]), ast.unparse(c.args[1])
            if isinstance(lp.target, ast.Name):
                i = lp.target.id
                return a == '%s[%s]' % (vals, i) and b == '%s[%s]' % (ids, i)
            if isinstance(lp.target, ast.Tuple) and len(lp.target.elts) == 2:
                return [a, b] == [ast.unparse(e) for e in lp.target.elts]
            return False
        k = _toplevel_call(lp.body, is_insert)
        it = ast.unparse(lp.iter)
        full = it in ('range(0, len(%s))' % vals, 'range(len(%s))' % vals, 'range(0, len(%s))' % ids, 'range(len(%s))' % ids,
                      'zip(%s, %s)' % (vals, ids))
        if k is None:
            why = 'the loop body has no unconditional self.insert(%s[i], %s[i])' % (vals, ids)
        elif _has_exit(lp.body[:k]):
            why = 'an iteration can leave the loop body (continue/break/return) before the pair is inserted'
        elif not full:
            why = 'the loop does not range over every index (%s)' % it
        else:
            ok = True
            why = 'every index inserted'
    chk.judge(ok, rid, am.mod.path, 'AbstractMatcher.batch_insert', why,
              'AbstractMatcher.batch_insert: %s - a phrase (or one of the ids it is listed under) never reaches the trie, so '
              'find misses it or reports incomplete canonical ids' % why, fn.lineno)
    tt = idx.cls('recognizers_text.matcher.trie_tree.TrieTree')
    fn = tt.methods.get('insert')
    if fn is None:
        raise AnalysisError('anchor vanished: TrieTree.insert')
    params = [a.arg for a in fn.args.args if a.arg != 'self']
    loops = [(i, n) for i, n in enumerate(fn.body) if isinstance(n, ast.For)]
    ok = False
    why = 'shape not recognised'
    if len(params) == 2 and len(loops) == 1:
        li, lp = loops[0]
        walks = ast.unparse(lp.iter) == params[0]
        k = _toplevel_call(fn.body[li + 1:], lambda c: isinstance(c.func, ast.Attribute) and c.func.attr == 'add_value'
                           and len(c.args) == 1 and ast.unparse(c.args[0]) == params[1])
        advance = any(isinstance(st, ast.Assign) and len(st.targets) == 1 and isinstance(st.targets[0], ast.Name)
                      and st.targets[0].id == 'node' for st in lp.body) and not _has_exit(lp.body)
        if not walks:
            why = 'the walk does not iterate over the phrase tokens'
        elif k is None or _has_exit(fn.body[li + 1:li + 1 + (k or 0)]):
            why = 'the id is not recorded unconditionally at the node the walk ends in'
        elif not advance:
            why = 'the walk does not advance to the child node on every token'
        else:
            ok = True
            why = 'walks every token, advances, records the id'
    chk.judge(ok, rid, tt.mod.path, 'TrieTree.insert', why,
              'TrieTree.insert: %s - an inserted phrase is not (fully) retrievable' % why, fn.lineno)
    nd = idx.cls('recognizers_text.matcher.node.Node')
    fn = nd.methods.get('add_value')
    if fn is None:
        raise AnalysisError('anchor vanished: Node.add_value')
    p0 = [a.arg for a in fn.args.args if a.arg != 'self'][0]
    k = _toplevel_call(fn.body, lambda c: isinstance(c.func, ast.Attribute) and c.func.attr == 'append' and len(c.args) == 1
                       and ast.unparse(c.args[0]) == p0)
    ok = k is not None and not _has_exit(fn.body[:k])
    chk.judge(ok, rid, nd.mod.path, 'Node.add_value', 'appends the id unconditionally' if ok else 'no unconditional append',
              'Node.add_value does not append every id unconditionally: a phrase listed under several ids keeps only some of '
              'them (canonical ids incomplete)', fn.lineno)


CONTROL = '''
class T:
    def tokenize(self, input):
        tokens = []
        in_token = False
        token_start = 0
        chars = list(input)
        for i in range(0, len(chars)):
            c = chars[i]
            if str.isspace(c):
                if in_token:
                    tokens.append(Token(token_start, i - token_start, input[token_start: i]))
            elif not str.isalpha(c):
                if in_token:
                    tokens.append(Token(token_start, i - token_start, input[token_start: i]))
                    in_token = False
                tokens.append(Token(i, 1, input[i: i + 2]))
            else:
                if not in_token:
                    token_start = i
                    in_token = True
        if in_token:
            tokens.append(Token(token_start, len(chars) - token_start, input[token_start:len(chars)]))
        return tokens
'''


def run(chk):
    idx = get_index()
    chk.explanation = ('offset algebra on the tokenizers (token text = slice; per-branch flush accounting of the scanner '
                       'loop), on StringMatcher.find\'s index-to-offset mapping, on init\'s key pairing and on the trie yield')
    # floor 0: a tokenizer that builds its tokens through an alternative constructor (Token.from_slice(text, a, b)) has no literal
    # Token(a, b, input[c:d]) left; it is decided by C16.tab.tokens, and the positive control keeps this rule honest
    chk.rule('C16.token-slice', 'Token(a, b, input[c:d]) has c == a and d == a + b', floor=0, control=True)
    chk.rule('C16.flush', 'scanner-loop flush accounting per branch x in_token', floor=1, control=True)
    chk.rule('C16.find-map', 'StringMatcher.find token-index to character-offset mapping', floor=1)
    chk.rule('C16.init-pairs', 'dict form of init pairs each value with its own key', floor=1)
    chk.rule('C16.trie-yield', 'TrieTree.find yields (i, j - i) for the walk from i; every start is tried and every walk reaches the end of the query (or a proven phrase-length bound)', floor=1)
    chk.rule('C16.insert-all', 'every (phrase, id) pair reaches the trie: batch_insert, TrieTree.insert, Node.add_value', floor=3)
    for q in TOKENIZERS:
        try:
            check_tokenizer(chk, idx, q)
        except AnalysisError as e:
            # the structural (offset-algebra) argument needs the recognised scanner shape; a tokenizer written differently is
            # decided by the bounded-exhaustive tabulation C16.tab.tokens, which interprets whatever is written
            c_ = idx.cls(q)
            for r_ in ('C16.token-slice', 'C16.flush'):
                chk.exempt(r_, c_.mod.path, '%s.tokenize' % c_.name,
                           'shape outside the structural argument (%s): decided by C16.tab.tokens on every string up to the '
                           'stated bound instead' % str(e)[:160], 'structural argument not applicable')
            chk.observe('%s - %s.tokenize is decided by C16.tab.tokens alone on this tree' % (e, c_.name))
    try:
        check_find(chk, idx)
    except AnalysisError as e:
        # the offset-algebra argument needs the MatchResult() + setter shape inside find; a mapping written differently (helper
        # method, constructor arguments) is decided by the bounded-exhaustive tabulation C16.tab.find, and says so
        c_ = idx.cls('recognizers_text.matcher.string_matcher.StringMatcher')
        chk.exempt('C16.find-map', c_.mod.path, 'StringMatcher.find',
                   'shape outside the structural argument (%s): decided by C16.tab.find on every dictionary/query up to the '
                   'stated bound instead' % str(e)[:160], 'structural argument not applicable')
        chk.observe('C16.find-map: %s - StringMatcher.find is decided by C16.tab.find alone on this tree' % e)
    check_init_pairs(chk, idx)
    try:
        check_trie(chk, idx)
    except AnalysisError as e:
        # the offset-algebra argument needs the two-nested-for shape; a trie walk written differently is decided by the
        # bounded-exhaustive tabulation C16.tab.find (which interprets whatever is written), and says so
        c_ = idx.cls('recognizers_text.matcher.trie_tree.TrieTree')
        chk.exempt('C16.trie-yield', c_.mod.path, 'TrieTree.find',
                   'shape outside the structural argument (%s): decided by C16.tab.find on every dictionary/query up to the '
                   'stated bound instead' % str(e)[:160], 'structural argument not applicable')
        chk.observe('C16.trie-yield: %s - TrieTree.find is decided by C16.tab.find alone on this tree' % e)
    check_insert_all(chk, idx)
    # positive control: a tokenizer that forgets `in_token = False` after a whitespace flush and mis-slices a separator
    ctl = ast.parse(CONTROL).body[0].body[0]
    tm = idx.mod('recognizers_text.matcher.simple_tokenizer')

    class _Ctl:
        def __init__(self):
            self.bad = []
            self.rules = chk.rules

        def judge(self, cond, rule, *a, **k):
            if not cond:
                self.bad.append(rule)

        def bad_(self, rule, *a, **k):
            self.bad.append(rule)

        def consulted(self, p):
            pass
    c2 = _Ctl()
    c2.bad_ = c2.bad_
    c2.__dict__['bad'] = c2.bad
    shim = type('S', (), {'judge': c2.judge, 'bad': lambda self, rule, *a, **k: c2.bad.append(rule), 'consulted': lambda self, p: None})()
    check_tokenizer(shim, idx, None, (ctl, _facts(idx, tm), tm.path, 'control'))
    chk.control('C16.flush', 'C16.flush' in c2.bad)
    chk.control('C16.token-slice', 'C16.token-slice' in c2.bad)
    chk.exhaustive = True
    chk.assume('Token/MatchResult .end == start + length is read from the class property; the walk of the trie itself '
               '(which children exist) is not decided')


META = {
    'text': 'Offset algebra and per-branch accounting over the two tokenizers and the matcher front end: every Token text '
            'is the slice its (start, length) names; each branch of the scanner loop, for in_token true and false, emits '
            'exactly the pending interval and/or the current character and re-establishes the (in_token, token_start) '
            'invariant, and the epilogue flushes - hence tokens are ordered, disjoint and cover every non-space character '
            'once; StringMatcher.find maps token indices back to character offsets correctly; init pairs values with '
            'their own keys; the trie yields (i, j - i). A finite case analysis, complete for the clauses named.',
    'note': 'Not decided: the trie walk over arbitrary dictionaries (which children exist, no misses / no extras beyond '
            'the yield arithmetic) and canonical-id semantics; which characters fall into which branch (is_cjk tables). '
            'Trusted: sa/symx.py linear normal forms; Token.end/MatchResult.end read from the class properties.',
    'technique': 'symbolic offset algebra with exhaustive per-branch case analysis of the scanner loop',
}


# =====================================================================================================================
# C16.tab - bounded-exhaustive tabulation of the real matcher code (sa/ointerp.py) against an independent reference
#
# C16.tab.tokens   every string over a class alphabet (letter, digit, blank, '$', punctuation, Han/kana, Hangul) up to a small
#                  length is tokenised by interpreting <Tokenizer>.tokenize as written: tokens in order, disjoint,
#                  text == s[start:start+length], every non-blank character in exactly one token, and equal to the reference
#                  tokenisation (SimpleTokenizer: letters/digits group, everything else stands alone; NumberWithUnitTokenizer:
#                  '$' is a token character, a token splits between letter|digit and between digit|'$' - read from the code).
# C16.tab.find     StringMatcher is built and queried by interpreting __init__/init/find (and everything below: TrieTree, Node,
#                  MatchResult, Token, the tokenizer) on every query of a few tokens, for dictionaries of 1-3 phrases per shape
#                  class: the result must be EXACTLY the token-aligned occurrences (start, length, text = query slice, ids) of
#                  the inserted phrases - all of them, overlapping ones and prefixes included - and must not depend on earlier
#                  calls or on another matcher built in the same interpreter (shared defaults / class-level state are modelled).

from ..ointerp import Interp as _Interp, Obj as _Obj, FuncRef as _FuncRef, PyExc as _PyExc, ClassRef as _ClassRef, Gen as _Gen
import itertools as _it

_TAB_TOK = 'C16.tab.tokens'
_TAB_FIND = 'C16.tab.find'
_MATCHER_FILES = ['simple_tokenizer', 'number_with_unit_tokenizer', 'trie_tree', 'node', 'string_matcher', 'match_result', 'token',
                  'abstract_matcher', 'match_strategy']

# class alphabet: two realisations of (letter, digit, blank, '$', punctuation, Han/kana, Hangul)
_ALPHA0 = ['a', '7', ' ', '$', '.', '中']
_ALPHA1 = ['é', '0', '\t', '$', '-', 'ア', '한']
_ALPHA_SMALL = ['a', '7', ' ', '$']


def _cls_of(c):
    """character class of a test character - known by construction, not computed with the repository's tables"""
    if c in ' \t':
        return 'B'
    if c in '0123456789':
        return 'D'
    if c == '$':
        return '$'
    if c in '.-':
        return 'P'
    if c in '中ア公里米':
        return 'C'
    if c == '한':
        return 'K'
    if c == 'é' or ('a' <= c <= 'z') or ('A' <= c <= 'Z'):
        return 'L'
    raise AnalysisError('internal: test character %r has no class' % c)


def _ref_tokens(s, kind):
    """reference tokenisation [(start, length, text)] written from the property statement.
    simple: maximal runs of letters/digits; every other non-blank character (symbols, '$', CJK incl. Hangul) alone.
    nwu   : token characters are letters, digits and '$'; a run splits between letter|digit and digit|'$' (either order);
            symbols and Han/kana alone.  Hangul under nwu is not decided by the property (see _ambiguous)."""
    out = []
    i, n = 0, len(s)
    grp = 'LD' if kind == 'simple' else 'LD$'
    while i < n:
        k = _cls_of(s[i])
        if k == 'B':
            i += 1
            continue
        j = i + 1
        if k in grp:
            while j < n and _cls_of(s[j]) in grp:
                if kind == 'nwu':
                    pair = {_cls_of(s[j - 1]), _cls_of(s[j])}
                    if pair == {'L', 'D'} or pair == {'D', '$'}:
                        break
                j += 1
        out.append((i, j - i, s[i:j]))
        i = j
    return out


def _ambiguous(s, kind):
    """NumberWithUnitTokenizer consults is_chinese/is_japanese only: Hangul syllables take the letter branch (they group),
    whereas SimpleTokenizer isolates them.  The statement does not say which is right, so for such strings only the
    structural clauses are decided."""
    return kind == 'nwu' and '한' in s


def _tok_struct(s, toks):
    """structural clauses of the statement on [(start, length, text)]; None or a short reason"""
    pos = 0
    cover = [0] * len(s)
    for (a, l, t) in toks:
        if not isinstance(a, int) or not isinstance(l, int) or isinstance(a, bool) or not isinstance(t, str):
            return 'a token is not (int start, int length, str text)'
        if l < 1 or a < 0 or a + l > len(s):
            return 'token (%d, %d) lies outside the input or is empty' % (a, l)
        if a < pos:
            return 'token (%d, %d) is out of order or overlaps its predecessor' % (a, l)
        if t != s[a:a + l]:
            return 'token (%d, %d) has text %r, the slice is %r' % (a, l, t, s[a:a + l])
        for k in range(a, a + l):
            cover[k] += 1
        pos = a + l
    for k, ch in enumerate(s):
        if _cls_of(ch) != 'B' and cover[k] != 1:
            return 'character %d (%r) is covered by %d tokens' % (k, ch, cover[k])
    return None


def _strings(alpha, maxlen):
    for n in range(0, maxlen + 1):
        for tup in _it.product(alpha, repeat=n):
            yield ''.join(tup)


def _read(it, o, names, what):
    if not isinstance(o, _Obj):
        raise _PyExc('%s is %r, not an object' % (what, o))
    return tuple(it.getattr(o, n, None, None) for n in names)


def _tab_tokenize(idx, call, kind, plans, per_call=300000):
    """call(it, s) -> interpreted token list.  Returns (n strings, None | (string, got, reason))"""
    it = _Interp(idx, where='C16.tab.tokens[%s]' % kind, budget=per_call)
    call = call(it)
    n = 0
    seen = set()
    for alpha, maxlen in plans:
        for s in _strings(alpha, maxlen):
            if s in seen:
                continue
            seen.add(s)
            n += 1
            it.budget = per_call
            try:
                res = call(s)
                if isinstance(res, _Gen):
                    res = it.iterate(res, None)
                if not isinstance(res, list):
                    raise _PyExc('tokenize returned %r' % (res,))
                toks = [_read(it, o, ('start', 'length', 'text'), 'a token') for o in res]
            except _PyExc as ex:
                return n, (s, None, 'raises %s' % ex)
            why = _tok_struct(s, toks)
            if why is None and not _ambiguous(s, kind):
                want = _ref_tokens(s, kind)
                if toks != want:
                    why = 'tokens differ from the reference tokenisation %s' % (want,)
            if why is not None:
                return n, (s, toks, why)
    return n, None


_CTL_TOKENIZE = ast.parse('''
def tokenize(self, input):
    tokens = []
    in_token = False
    token_start = 0
    for i in range(0, len(input)):
        c = input[i]
        if str.isspace(c):
            if in_token:
                tokens.append(Token(token_start, i - token_start, input[token_start:i]))
                in_token = False
        elif not (str.isdigit(c) or str.isalpha(c)) or self.is_cjk(c):
            if in_token:
                tokens.append(Token(token_start, i - token_start, input[token_start:i]))
                in_token = False
            tokens.append(Token(i, 1, input[i:i + 1]))
        else:
            if not in_token:
                token_start = i
                in_token = True
    return tokens
''').body[0]          # the epilogue flush is missing: the last token of 'a' is dropped


def _tokenizer_call(idx, qual, fn_override=None):
    c = idx.cls(qual)
    k, fn = idx.find_method(c, 'tokenize')
    if fn is None:
        raise AnalysisError('anchor vanished: %s.tokenize' % qual)
    if fn_override is not None:
        k, fn = c, fn_override

    def make(it):
        obj = it.instantiate(c, [], {}, None)
        ref = _FuncRef(k.mod, fn, k)
        return lambda s: it.call_function(ref, [s], {}, None, selfobj=obj)
    return c, k, fn, make


def _tab_tokens(chk, idx, tier):
    chk.rule(_TAB_TOK, 'tokenize interpreted on every short string over the class alphabet: ordered, disjoint, text = slice, '
                       'every non-blank character covered once, equal to the reference tokenisation', floor=2, control=True)
    tok = idx.cls('recognizers_text.matcher.token.Token')
    for p in ('start', 'length', 'text'):
        if p not in tok.methods:
            raise AnalysisError('Token has no property %r: the token view cannot be read' % p)
    if tier == 'quick':
        plans = [(_ALPHA0, 4), (_ALPHA1, 3)]
        bounds = 'all strings of length <= 4 over %r and of length <= 3 over %r' % (''.join(_ALPHA0), ''.join(_ALPHA1))
    else:
        plans = [(_ALPHA0, 5), (_ALPHA1, 4), (_ALPHA_SMALL, 6)]
        bounds = 'all strings of length <= 5 over %r, <= 4 over %r and <= 6 over %r' % (
            ''.join(_ALPHA0), ''.join(_ALPHA1), ''.join(_ALPHA_SMALL))
    for qual, kind in zip(TOKENIZERS, ('simple', 'nwu')):
        c, k, fn, make = _tokenizer_call(idx, qual)
        chk.consulted(k.mod.path)
        n, fail = _tab_tokenize(idx, make, kind, plans)
        construct = '%s.tokenize[every short string over the class alphabet]' % c.name
        if fail is None:
            chk.ok(_TAB_TOK, k.mod.path, construct,
                   'ordered, disjoint, text = slice, non-blank characters covered once, equals the reference tokenisation',
                   fn.lineno)
        else:
            s, got, why = fail
            detail = 'raises' if got is None else ('differs from the reference tokenisation' if why.startswith('tokens differ')
                                                   else 'structural clause broken')
            chk.bad(_TAB_TOK, k.mod.path, construct, detail,
                    '%s.tokenize(%r) -> %s: %s (smallest failing input; %d strings tried)' % (c.name, s, got, why, n), fn.lineno)
        chk.observe('%s: %s.tokenize interpreted on %d strings (%s)%s' % (
            _TAB_TOK, c.name, n, bounds,
            '; strings with a Hangul syllable: structural clauses only (the tokenizer groups Hangul with letters, '
            'SimpleTokenizer isolates it - the statement does not decide)' if kind == 'nwu' else ''))
    # positive control: a tokenizer without the epilogue flush
    c, k, fn, make = _tokenizer_call(idx, TOKENIZERS[0], _CTL_TOKENIZE)
    n, fail = _tab_tokenize(idx, make, 'simple', [(_ALPHA0, 2)])
    chk.control(_TAB_TOK, fail is not None)


# ---------------------------------------------------------------------------------------------------------------------
# C16.tab.find

_WORD = {'a': 'a', 'b': 'bc', 'c': 'd', 'x': 'x'}


def _ph(p):
    return ' '.join(_WORD[ch] for ch in p)


def _ref_find(entries, q, kind):
    """every token-aligned occurrence of every inserted phrase: sorted [(start, length, text, sorted ids)]"""
    toks = _ref_tokens(q, kind)
    texts = [t[2] for t in toks]
    groups = {}
    for ph, pid in entries:
        groups.setdefault(tuple(t[2] for t in _ref_tokens(ph, kind)), []).append(pid)
    out = []
    for i in range(len(toks)):
        for P, ids in groups.items():
            if P and tuple(texts[i:i + len(P)]) == P:
                a = toks[i][0]
                e = toks[i + len(P) - 1]
                ln = e[0] + e[1] - a
                out.append((a, ln, q[a:a + ln], tuple(sorted(ids))))
    return sorted(out)


class _Matchers:
    """one interpreter = one process: matchers are built and queried by interpreting the repository's code"""

    def __init__(self, idx, hooks=None, per_call=600000):
        self.idx = idx
        self.per_call = per_call
        self.it = _Interp(idx, hooks=hooks, where='C16.tab.find', budget=per_call)
        self.sm = idx.cls('recognizers_text.matcher.string_matcher.StringMatcher')
        self.k_init, self.f_init = idx.find_method(self.sm, 'init')
        self.k_find, self.f_find = idx.find_method(self.sm, 'find')
        if self.f_init is None or self.f_find is None:
            raise AnalysisError('anchor vanished: StringMatcher.init / StringMatcher.find')

    def build(self, form, entries, kind):
        it = self.it
        it.budget = self.per_call
        if kind == 'simple':
            m = it.instantiate(self.sm, [], {}, None)        # default strategy, default tokenizer
        else:
            ms = self.idx.cls('recognizers_text.matcher.match_strategy.MatchStrategy')
            tk = it.instantiate(self.idx.cls(TOKENIZERS[1]), [], {}, None)
            m = it.instantiate(self.sm, [it.getattr(_ClassRef(ms), 'TrieTree', None, None), tk], {}, None)
        if form == 'list':
            args = [[ph for ph, _ in entries]]
        elif form == 'ids':
            args = [[ph for ph, _ in entries], [pid for _, pid in entries]]
        else:
            d = {}
            for ph, pid in entries:
                d.setdefault(pid, (pid, []))[1].append(ph)
            args = [d]
        it.budget = self.per_call
        it.call_function(_FuncRef(self.k_init.mod, self.f_init, self.k_init), args, {}, None, selfobj=m)
        return m

    def find_raw(self, m, q):
        it = self.it
        it.budget = self.per_call
        res = it.call_function(_FuncRef(self.k_find.mod, self.f_find, self.k_find), [q], {}, None, selfobj=m)
        if isinstance(res, _Gen):
            res = it.iterate(res, None)
        if not isinstance(res, list):
            raise _PyExc('find returned %r' % (res,))
        return res

    def view(self, res):
        out = []
        for o in res:
            a, ln, t, ids = _read(self.it, o, ('start', 'length', 'text', 'canonical_values'), 'a match')
            if isinstance(ids, _Gen):
                ids = self.it.iterate(ids, None)
            if not isinstance(ids, (list, tuple)) or not all(isinstance(x, str) for x in ids):
                raise _PyExc('canonical_values is %r' % (ids,))
            out.append((a, ln, t, tuple(sorted(ids))))
        try:
            return sorted(out)
        except TypeError:
            raise _PyExc('match fields of unexpected types: %r' % (out,))

    def find(self, m, q):
        return self.view(self.find_raw(m, q))


def _diff_kind(got, want):
    g = {(a, l): (t, i) for a, l, t, i in got}
    w = {(a, l): (t, i) for a, l, t, i in want}
    if len(got) != len(g) and set(g) == set(w):
        return 'occurrence reported twice'
    if set(w) - set(g):
        return 'missed occurrence'
    if set(g) - set(w):
        return 'spurious match'
    if any(g[k][0] != w[k][0] for k in w):
        return 'wrong text'
    return 'wrong ids'


def _entries_of(spec):
    form, raw = spec
    out = []
    for n, e in enumerate(raw):
        ph, pid = (e, None) if isinstance(e, str) else e
        text = _ph(ph)
        out.append((text, text if form == 'list' else (pid or 'I%d' % (n + 1))))
    return out


def _queries(entries, kind, nmax):
    words = []
    for ph, _ in entries:
        for t in _ref_tokens(ph, kind):
            if t[2] not in words:
                words.append(t[2])
    n = nmax.get(len(words), min(nmax.values()))
    voc = words + ['x']
    for k in range(0, n + 1):
        for tup in _it.product(voc, repeat=k):
            yield ' '.join(tup)


def _tab_dictionary(idx, spec, kind, queries, hooks=None):
    """(calls, None | (query, got, want, kind of difference, call number, answered correctly on a fresh matcher?))"""
    form, _ = spec
    entries = _entries_of(spec)
    mm = _Matchers(idx, hooks)
    try:
        m = mm.build(form, entries, kind)
    except _PyExc as ex:
        return 0, ('<init>', None, None, 'raises', 0, None, 'init raises %s' % ex)
    calls = 0
    first = None
    for q in queries:
        want = _ref_find(entries, q, kind)
        calls += 1
        try:
            raw = mm.find_raw(m, q)
            got = mm.view(raw)
            err = None
        except _PyExc as ex:
            raw, got, err = None, None, 'raises %s' % ex
        if got != want:
            fresh = None
            try:
                m2 = _Matchers(idx, hooks)
                fresh = m2.find(m2.build(form, entries, kind), q) == want
            except _PyExc:
                fresh = False
            return calls, (q, got, want, 'raises' if err else _diff_kind(got, want), calls, fresh, err)
        if first is None and got:
            first = (q, raw, got)
    if first is not None:
        # the objects handed out by an earlier call must not have been changed by the later calls
        q, raw, got = first
        try:
            again = mm.view(raw)
        except _PyExc as ex:
            again = 'raises %s' % ex
        if again != got:
            return calls, (q, again, got, 'result of an earlier call changed by later calls', calls, True, None)
        try:
            rep = mm.find(m, q)
        except _PyExc as ex:
            rep = 'raises %s' % ex
        calls += 1
        if rep != got:
            return calls, (q, rep, got, 'repeated call answers differently', calls, True, None)
    return calls, None


def _describe(spec, kind):
    form, _ = spec
    ent = _entries_of(spec)
    tk = 'SimpleTokenizer' if kind == 'simple' else 'NumberWithUnitTokenizer'
    if form == 'list':
        return 'StringMatcher(%s).init(%r)' % (tk, [p for p, _ in ent])
    if form == 'ids':
        return 'StringMatcher(%s).init(%r, %r)' % (tk, [p for p, _ in ent], [i for _, i in ent])
    d = {}
    for p, i in ent:
        d.setdefault(i, []).append(p)
    return 'StringMatcher(%s).init(%r)' % (tk, d)


def _fail_text(spec, kind, f):
    q, got, want, dk, callno, fresh, err = f
    msg = '%s; find(%r) -> %s, expected %s [%s]' % (_describe(spec, kind), q, err or got, want, dk)
    if fresh is True and callno > 1:
        msg += ('; call no. %d on this matcher - a fresh matcher in a fresh process answers the same query correctly: the '
                'result depends on earlier calls (shared mutable state)' % callno)
    return msg


# shape classes: (name, form, quick dictionaries, additional thorough dictionaries); a phrase 'aba' is the word sequence
# a b a over the vocabulary a='a', b='bc', c='d'; (phrase, id) pairs give explicit ids
_SHAPES = [
    ('one phrase', 'list',
     [['a'], ['aa'], ['ab'], ['aba'], ['abc']],
     [['aaa'], ['aab'], ['abb']]),
    ('two phrases, one a prefix of the other', 'ids',
     [['a', 'ab'], ['ab', 'a'], ['ab', 'aba']],
     [['aba', 'ab'], ['a', 'aa'], ['aa', 'aaa'], ['a', 'abc'], ['ab', 'abc'], ['abc', 'ab']]),
    ('two phrases, the end of one is the start of the other', 'ids',
     [['ab', 'ba']],
     [['ab', 'bc'], ['ab', 'b'], ['b', 'ab'], ['aba', 'ba'], ['aa', 'ab']]),
    ('two unrelated phrases', 'ids',
     [['a', 'b']],
     [['ab', 'c'], ['a', 'bc'], ['ab', 'ca']]),
    ('one phrase under two ids', 'ids',
     [[('ab', 'P'), ('ab', 'Q')], [('a', 'P'), ('a', 'Q')]],
     [[('aba', 'P'), ('aba', 'Q')], [('a', 'P'), ('ab', 'Q'), ('a', 'R')]]),
    ('two phrases under one id', 'ids',
     [[('ab', 'P'), ('b', 'P')]],
     [[('a', 'P'), ('ab', 'P')], [('a', 'P'), ('b', 'P')], [('ab', 'P'), ('ba', 'P')]]),
    ('three phrases', 'ids',
     [['a', 'ab', 'abb'], ['a', 'ab', 'abc']],
     [['abb', 'ab', 'a'], ['ab', 'ba', 'a'], ['a', 'b', 'ab'], ['ab', 'bc', 'ca'], ['a', 'aa', 'aaa']]),
    ('dict form of init (id -> phrases)', 'dict',
     [[('a', 'P'), ('ab', 'P'), ('ab', 'Q')]],
     [[('a', 'P'), ('a', 'Q'), ('b', 'Q')], [('ab', 'P'), ('abc', 'P'), ('bc', 'Q')]]),
]


def _perms(*bases):
    return [list(p) for b in bases for p in _it.permutations(b)]


# insertion order must not matter: a phrase that is a token-wise proper prefix of another one, and a phrase listed twice, in
# EVERY order (a walk through an existing leaf must neither replace it nor lose its ids); queries one token shorter than in the
# other classes, the dictionaries are many
_ORDER_QUICK = _perms(['a', 'ab', 'abb'], [('a', 'P'), ('a', 'Q'), ('ab', 'R')])
_ORDER_EXTRA = _perms(['ab', 'aba', 'a'], ['a', 'b', 'ab'], [('ab', 'P'), ('ab', 'Q'), ('a', 'R')], ['a', 'aa', 'aaa'])
_SHAPES.append(('prefix chains and repeated phrases in every insertion order', 'ids', _ORDER_QUICK, _ORDER_EXTRA))

_SHAPE_OK = 'exactly the token-aligned occurrences (start, length, text = query slice, ids), independent of earlier calls'


def _irregular_queries(tier):
    """token sequences over a, bc, '.' glued with irregular gaps; '' only where the neighbours split on their own"""
    toks = ['a', 'bc', '.']
    gaps = [' ', ' \t', ''] if tier == 'quick' else [' ', '  ', '\t', '']
    nmax = 3 if tier == 'quick' else 4
    out = []
    for n in range(1, nmax + 1):
        for seq in _it.product(toks, repeat=n):
            for gs in _it.product(gaps, repeat=n - 1):
                if any(g == '' and '.' not in (seq[i], seq[i + 1]) for i, g in enumerate(gs)):
                    continue
                q = seq[0] + ''.join(g + t for g, t in zip(gs, seq[1:]))
                out.append(q)
                if n <= 2:
                    out.append(' ' + q + '\t')
    return out


_CTL_TRIE_FIND = ast.parse('''
def find(self, query_text):
    for i in range(0, len(query_text)):
        node = self.root
        j = i
        for j in range(j, len(query_text)):
            if node.end:
                yield MatchResult(i, j - i, node.values)
            text = query_text[j]
            if node[text] is None:
                break
            node = node[text]
''').body[0]          # never looks at the node reached with the last token: an occurrence that ends the query is missed

_CTL_SM_FIND = ast.parse('''
def find(self, tokenized_query):
    if isinstance(tokenized_query, list):
        return self.matcher.find(tokenized_query)
    query_tokens = self.tokenizer.tokenize(tokenized_query)
    result = []
    for r in self.find(list(map(lambda t: t.text, query_tokens))):
        start_token = query_tokens[r.start]
        end_token = query_tokens[r.start + r.length - 1]
        match_result = MatchResult(start_token.start, end_token.end - start_token.start)
        match_result.text = tokenized_query[start_token.start: end_token.end]
        match_result.canonical_values.extend(r.canonical_values)
        result.append(match_result)
    return result
''').body[0]          # ids appended to MatchResult's shared default list


def _tab_isolation(idx, tier, hooks=None):
    """two matchers with different tokenizers and overlapping phrase lists, built one after the other in ONE interpreter and
    queried alternately; (calls, None | message)"""
    lists = {'simple': ['a1', 'us$', 'kg', '1 kg'], 'nwu': ['a1', 'us$', 'kg', '1 kg', '7']}
    items = ['a1', 'us$', 'kg', '1']
    qs = list(items)
    for x, y in _it.product(items, repeat=2):
        qs += [x + ' ' + y, x + y]
    if tier != 'quick':
        for x, y, z in _it.product(items, repeat=3):
            qs += [x + ' ' + y + z, x + y + ' ' + z]
    calls = 0
    names = {'simple': 'SimpleTokenizer', 'nwu': 'NumberWithUnitTokenizer'}
    for order in (('simple', 'nwu'), ('nwu', 'simple')):
        mm = _Matchers(idx, hooks)
        ent = {k: [(p, p) for p in lists[k]] for k in order}
        try:
            ms = {k: mm.build('list', ent[k], k) for k in order}
        except _PyExc as ex:
            return calls, ('building the matchers raises %s' % ex, 'raises')
        for q in qs:
            for k in (order[0], order[1], order[0]):
                want = _ref_find(ent[k], q, k)
                calls += 1
                try:
                    got = mm.find(ms[k], q)
                except _PyExc as ex:
                    got = 'raises %s' % ex
                if got != want:
                    alone = None
                    try:
                        m2 = _Matchers(idx, hooks)
                        alone = m2.find(m2.build('list', ent[k], k), q) == want
                    except _PyExc:
                        alone = False
                    dk = 'raises' if isinstance(got, str) else _diff_kind(got, want)
                    return calls, (
                        'matchers built in the order %s in one process: StringMatcher(%s).init(%r).find(%r) -> %s, expected %s [%s]'
                        % (' then '.join('StringMatcher(%s).init(%r)' % (names[o], lists[o]) for o in order), names[k], lists[k],
                           q, got, want, dk)
                        + ('; the same matcher alone in a fresh process answers correctly: state leaks between matchers or calls'
                           if alone else '; the same matcher alone in a fresh process gives the same wrong answer'),
                        'answers depend on the other matcher or on earlier calls' if alone else dk)
    return calls, None


def rule_matcher_tab(chk, idx):
    tier = chk.tier if hasattr(chk, 'tier') else 'quick'
    for name in _MATCHER_FILES:
        chk.consulted(idx.mod('recognizers_text.matcher.' + name).path)
    _tab_tokens(chk, idx, tier)
    chk.rule(_TAB_FIND, 'StringMatcher built and queried by interpreting the code: find returns exactly the token-aligned '
                        'occurrences of the inserted phrases with offsets, text and ids, independent of earlier calls and of '
                        'other matchers', floor=12, control=True)
    sm = idx.cls('recognizers_text.matcher.string_matcher.StringMatcher')
    line = sm.methods['find'].lineno if 'find' in sm.methods else None
    nmax = {1: 5, 2: 4, 3: 3} if tier == 'quick' else {1: 6, 2: 5, 3: 4}
    total = 0
    for name, form, quick, extra in _SHAPES:
        construct = 'StringMatcher[%s]' % name
        dicts = quick + (extra if tier != 'quick' else [])
        fail = None
        n_calls = 0
        nm = nmax if not name.endswith('every insertion order') else {k: v - 1 for k, v in nmax.items()}
        for raw in dicts:
            spec = (form, raw)
            calls, f = _tab_dictionary(idx, spec, 'simple', _queries(_entries_of(spec), 'simple', nm))
            n_calls += calls
            if f is not None:
                fail = (spec, f)
                break
        total += n_calls
        if fail is None:
            chk.ok(_TAB_FIND, sm.mod.path, construct, _SHAPE_OK, line)
        else:
            chk.bad(_TAB_FIND, sm.mod.path, construct, fail[1][3],
                    _fail_text(fail[0], 'simple', fail[1]) + ' (first failing input; %d calls compared)' % n_calls, line)
    # literal dictionaries: irregular spacing and symbols that tokenise on their own (SimpleTokenizer); tokens that touch
    # without a blank (NumberWithUnitTokenizer: digit|letter and digit|'$' boundaries)
    items = ['a1', 'us$', 'kg', '1']
    glued = list(items)
    for n in ((2,) if tier == 'quick' else (2, 3)):
        for seq in _it.product(items, repeat=n):
            for gs in _it.product([' ', ''], repeat=n - 1):
                glued.append(seq[0] + ''.join(g + t for g, t in zip(gs, seq[1:])))
    cjk_items = ['公', '里', '米', 'a']
    cjk = list(cjk_items)
    for n in ((2, 3) if tier == 'quick' else (2, 3, 4)):
        for seq in _it.product(cjk_items, repeat=n):
            for gs in _it.product([' ', ''], repeat=n - 1):
                cjk.append(seq[0] + ''.join(g + t for g, t in zip(gs, seq[1:])))
    cjk = sorted(set(cjk), key=lambda q: (len(q), q))
    cjk_ent = [('公里', 'I1'), ('米', 'I2'), ('公', 'I3'), ('a 米', 'I4'), ('里 米', 'I5')]
    n_literal = {}
    for cname, kind, ent, qs in (
            ('CJK phrases (one token per character), SimpleTokenizer', 'simple', cjk_ent, cjk),
            ('CJK phrases (one token per character), NumberWithUnitTokenizer', 'nwu', cjk_ent, cjk),
            ('irregular spacing and symbols', 'simple', [('a', 'I1'), ('a bc', 'I2'), ('bc.', 'I3'), ('a  .\ta', 'I4')],
             _irregular_queries(tier)),
            ('NumberWithUnitTokenizer, tokens touching without a blank', 'nwu',
             [('kg', 'I1'), ('1 kg', 'I2'), ('us$', 'I3'), ('a1', 'I4'), ('$1', 'I5')], glued)):
        construct = 'StringMatcher[%s]' % cname
        calls, f = _tab_raw(idx, ent, kind, qs)
        total += calls
        n_literal[cname] = len(qs)
        if f is None:
            chk.ok(_TAB_FIND, sm.mod.path, construct, _SHAPE_OK, line)
        else:
            q, got, want, dk, callno, fresh, err = f
            chk.bad(_TAB_FIND, sm.mod.path, construct, dk,
                    'StringMatcher(%s).init(%r, %r); find(%r) -> %s, expected %s [%s]%s (first failing input; %d calls compared)'
                    % ('SimpleTokenizer' if kind == 'simple' else 'NumberWithUnitTokenizer', [p for p, _ in ent],
                       [i for _, i in ent], q, err or got, want, dk,
                       '; a fresh matcher answers correctly: the result depends on earlier calls' if fresh and callno > 1 else '',
                       calls), line)
    # two matchers, two tokenizers, one process
    construct = 'StringMatcher[two matchers with different tokenizers in one process]'
    calls, f = _tab_isolation(idx, tier)
    total += calls
    if f is None:
        chk.ok(_TAB_FIND, sm.mod.path, construct, 'each matcher answers as if it were alone', line)
    else:
        chk.bad(_TAB_FIND, sm.mod.path, construct, f[1], f[0] + ' (first failing input; %d calls compared)' % calls, line)
    chk.observe('%s: %d interpreted find() calls; per dictionary every query over its own words plus the filler word "x", joined '
                'by single blanks, of up to %s tokens for dictionaries over 1/2/3 distinct words; %d dictionaries in %d shape '
                'classes; irregular pass: %d queries with double blank / tab / no gap next to "."; touching-token pass '
                '(NumberWithUnitTokenizer): %d queries; CJK pass (phrases of Han characters, blanks optional, both tokenizers): %d '
                'queries each; isolation: two build orders, alternating queries' % (
                    _TAB_FIND, total, '/'.join(str(nmax[k]) for k in (1, 2, 3)),
                    sum(len(s[2]) + (len(s[3]) if tier != 'quick' else 0) for s in _SHAPES), len(_SHAPES),
                    n_literal['irregular spacing and symbols'],
                    n_literal['NumberWithUnitTokenizer, tokens touching without a blank'], len(cjk)))
    chk.observe('%s: StringMatcher cannot be used with MatchStrategy.AcAutomaton on this tree (AaNode.__init__ never initialises '
                'Node\'s fields: init raises AttributeError; no caller selects it) - only the TrieTree strategy is tabulated'
                % _TAB_FIND)
    # positive controls: (1) a trie walk that never inspects the node reached with the last token, (2) ids appended to the
    # shared default list of MatchResult - the same comparison must report both
    tt = idx.cls('recognizers_text.matcher.trie_tree.TrieTree')

    def hook_for(owner, fn):
        fn.name = 'find_control'        # not itself hooked
        ref = _FuncRef(owner.mod, fn, owner)
        return lambda it, args, kwargs: it.call_function(ref, args[1:], kwargs, None, selfobj=args[0])
    spec = ('ids', ['a', 'ab'])
    c1 = _tab_dictionary(idx, spec, 'simple', _queries(_entries_of(spec), 'simple', {2: 3}),
                         hooks={'TrieTree.find': hook_for(tt, _CTL_TRIE_FIND)})[1]
    c2 = _tab_dictionary(idx, spec, 'simple', _queries(_entries_of(spec), 'simple', {2: 3}),
                         hooks={'StringMatcher.find': hook_for(sm, _CTL_SM_FIND)})[1]
    chk.control(_TAB_FIND, c1 is not None and c2 is not None)


def _tab_raw(idx, entries, kind, queries, hooks=None):
    """as _tab_dictionary for literal (phrase text, id) entries"""
    mm = _Matchers(idx, hooks)
    try:
        m = mm.build('ids', entries, kind)
    except _PyExc as ex:
        return 0, ('<init>', None, None, 'raises', 0, None, 'init raises %s' % ex)
    calls = 0
    for q in queries:
        want = _ref_find(entries, q, kind)
        calls += 1
        try:
            got, err = mm.find(m, q), None
        except _PyExc as ex:
            got, err = None, 'raises %s' % ex
        if got != want:
            try:
                m2 = _Matchers(idx, hooks)
                fresh = m2.find(m2.build('ids', entries, kind), q) == want
            except _PyExc:
                fresh = False
            return calls, (q, got, want, 'raises' if err else _diff_kind(got, want), calls, fresh, err)
    return calls, None


_run_before_tab = run


def run(chk):
    _run_before_tab(chk)
    rule_matcher_tab(chk, get_index())
    chk.explanation += ('; C16.tab: the tokenizers and StringMatcher/TrieTree/Node/MatchResult/Token are interpreted as written '
                        '(sa/ointerp.py, no repository code runs) on every short string / every short query for small '
                        'dictionaries and compared with an independent reference (bounded-exhaustive tabulation)')
    chk.assume('C16.tab: generator functions are run eagerly by the interpreter (their yields collected when called); words '
               'of a query that the dictionary does not use behave like the filler word')


META['text'] += (' C16.tab: bounded-exhaustive tabulation - the real tokenize / init / insert / find code is interpreted on every '
                 'string over a class alphabet up to a small length (tokens ordered, disjoint, text = slice, every non-blank '
                 'character covered once, equal to a reference tokenisation) and, for dictionaries of 1-3 phrases per shape '
                 'class (prefixes, overlaps, one phrase under two ids, two phrases under one id, dict form, irregular spacing, '
                 'touching tokens, two matchers in one process), on every query of a few tokens: find returns exactly the '
                 'token-aligned occurrences with offsets, text and ids, independent of earlier calls and of other matchers. Phrases '
                 'and queries must be tokenised alike (Han phrases written with and without blanks, both tokenizers), and the '
                 'insertion order of prefix chains and repeated phrases must not matter (every order of small sets).')
META['note'] = ('Decided only up to the stated bounds (see the observations in the evidence for string/query lengths): larger '
                'dictionaries and longer queries are covered by the shape rules, not by tabulation. Not decided: the AcAutomaton '
                'strategy (unusable on this tree: AaNode never initialises Node\'s fields; nothing selects it); whether Hangul '
                'should stand alone under NumberWithUnitTokenizer (it groups with letters today, SimpleTokenizer isolates it); '
                'the exact extent of the is_chinese/is_japanese/is_korean ranges beyond one representative per block. '
                'Trusted: sa/symx.py linear normal forms; sa/ointerp.py (generators run eagerly).')
META['technique'] += '; bounded-exhaustive tabulation of the interpreted matcher code against an independent reference'
