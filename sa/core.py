"""E8 - rule runtime: instances, floors, positive controls, known findings, evidence, exit protocol.

exit 0  all instances ok / exempt, or every violation is listed in known_findings.json
exit 1  + "VIOLATION property=<id> replay=<path>" for each unlisted violation
exit 2  + "ANALYSIS-ERROR ..." : anchor vanished, floor not met, unparsable module, idiom not
        recognised at a site a rule must classify, self-check disagreement, internal traceback
"""
import hashlib
import json
import os
import sys
import time

REPO = os.environ.get('VERIF_REPO', '/repo')
VERIF = os.path.dirname(os.path.dirname(os.path.abspath(__file__)))
LIBS = os.path.join(REPO, 'Python', 'libraries')
KNOWN_FILE = os.path.join(VERIF, 'known_findings.json')


class AnalysisError(Exception):
    """The checker could not do its job on this tree (never a verdict about the property)."""


def digest(*parts):
    h = hashlib.sha1()
    for p in parts:
        h.update(str(p).encode('utf-8', 'replace'))
        h.update(b'\x00')
    return h.hexdigest()[:12]


def rel(path):
    path = os.path.abspath(path)
    if path.startswith(REPO + os.sep):
        return path[len(REPO) + 1:]
    return path


class Inst:
    __slots__ = ('rule', 'file', 'construct', 'detail', 'verdict', 'msg', 'line', 'key')

    def __init__(self, rule, file, construct, detail, verdict, msg='', line=None):
        self.rule = rule
        self.file = file
        self.construct = construct
        self.detail = detail
        self.verdict = verdict          # ok | violation | exempt
        self.msg = msg
        self.line = line
        self.key = digest(rule, file, construct, detail)

    def as_dict(self):
        d = {'rule': self.rule, 'file': self.file, 'construct': self.construct, 'detail': self.detail,
             'verdict': self.verdict, 'key': self.key}
        if self.msg:
            d['msg'] = self.msg
        if self.line:
            d['line'] = self.line
        return d


class Check:
    def __init__(self, pid, tier='quick', level='other', design_ref=''):
        self.pid = pid
        self.tier = tier
        self.level = level
        self.design_ref = design_ref
        self.t0 = time.time()
        self.rules = {}            # id -> dict(desc, floor, n, controls)
        self.insts = []
        self.observations = []
        self.consulted_files = {}
        self.assumptions = []
        self.extra = {}
        self.exhaustive = None
        self.explanation = ''
        self.selftest = None

    # ---- declaration
    def rule(self, rid, desc, floor=1, control=False):
        """floor: minimum number of instances confirmed by hand on the pinned tree.
        control: this rule must see its embedded positive control fire on every run."""
        self.rules[rid] = {'desc': desc, 'floor': floor, 'n': 0, 'control': control, 'control_fired': False}

    def assume(self, text):
        self.assumptions.append(text)

    def consulted(self, path):
        try:
            with open(path, 'rb') as f:
                self.consulted_files[rel(path)] = hashlib.sha1(f.read()).hexdigest()[:12]
        except OSError:
            pass

    # ---- instances
    def _add(self, rule, file, construct, detail, verdict, msg, line):
        if rule not in self.rules:
            raise AnalysisError('internal: rule %s not declared' % rule)
        self.rules[rule]['n'] += 1
        i = Inst(rule, rel(file) if file else '', construct, detail, verdict, msg, line)
        self.insts.append(i)
        return i

    def ok(self, rule, file, construct, detail='', line=None):
        return self._add(rule, file, construct, detail, 'ok', '', line)

    def bad(self, rule, file, construct, detail, msg, line=None):
        return self._add(rule, file, construct, detail, 'violation', msg, line)

    def exempt(self, rule, file, construct, reason, detail='', line=None):
        return self._add(rule, file, construct, detail, 'exempt', reason, line)

    def judge(self, cond, rule, file, construct, detail, msg, line=None):
        if cond:
            return self.ok(rule, file, construct, detail, line)
        return self.bad(rule, file, construct, detail, msg, line)

    def observe(self, text):
        self.observations.append(text)

    def control(self, rule, fired):
        """positive control: the rule's detector run on an embedded violating snippet"""
        if fired:
            self.rules[rule]['control_fired'] = True

    # ---- end of run
    def finish(self):
        errors = []
        for rid, r in self.rules.items():
            if r['n'] < r['floor']:
                errors.append('rule %s matched %d instance(s), floor is %d (anchor moved or idiom changed: %s)'
                              % (rid, r['n'], r['floor'], r['desc']))
            if r['control'] and not r['control_fired']:
                errors.append('rule %s: positive control did not fire' % rid)
        known = load_known()
        viol = [i for i in self.insts if i.verdict == 'violation']
        listed, unlisted = [], []
        seen = set()
        for v in viol:
            k = (self.pid, v.rule, v.file, v.construct, v.key)
            if k in seen:
                continue
            seen.add(k)
            ent = known.get(k)
            if ent is not None and ent.get('status') == 'known':
                listed.append((v, ent))
            else:
                unlisted.append(v)
        stale = [e for k, e in known.items() if k[0] == self.pid and e.get('status') == 'known' and k not in seen]
        wall = time.time() - self.t0
        variant_run = bool(os.environ.get('VERIF_VARIANT'))      # self-test run on a scratch variant: no evidence, no replay
        if not variant_run:
            self._write_evidence(viol, listed, unlisted, stale, errors, wall)
        for v, ent in listed:
            print('KNOWN-FINDING: property=%s %s' % (self.pid, ent.get('what') or v.msg))
        for e in stale:
            print('NOTE: listed finding no longer reproduces (repaired?): property=%s %s %s::%s'
                  % (self.pid, e['rule'], e['file'], e['construct']))
        for o in self.observations[:40]:
            print('OBSERVATION: ' + o)
        nrules = len(self.rules)
        print('%s [%s] rules=%d instances=%d ok=%d exempt=%d violations=%d (known=%d) wall=%.2fs'
              % (self.pid, self.tier, nrules, len(self.insts),
                 sum(1 for i in self.insts if i.verdict == 'ok'),
                 sum(1 for i in self.insts if i.verdict == 'exempt'),
                 len(viol), len(listed), wall))
        if errors:
            for e in errors:
                print('ANALYSIS-ERROR property=%s %s' % (self.pid, e))
            return 2
        if unlisted:
            os.makedirs(os.path.join(VERIF, 'out', 'replay'), exist_ok=True)
            for n, v in enumerate(unlisted):
                path = os.path.join(VERIF, 'out', 'replay', '%s-%s.json' % (self.pid, v.key))
                if not variant_run:
                    with open(path, 'w') as f:
                        json.dump({'property': self.pid, 'instance': v.as_dict(),
                                   'rule_description': self.rules[v.rule]['desc'],
                                   'rerun': './check %s --replay %s' % (self.pid, path)}, f, indent=1)
                print('VIOLATION property=%s replay=%s' % (self.pid, path))
                print('  %s %s:%s %s :: %s' % (v.rule, v.file, v.line or '?', v.construct, v.msg))
                if v.detail:
                    print('  detail: %s' % v.detail[:300])
            return 1
        return 0

    def _write_evidence(self, viol, listed, unlisted, stale, errors, wall):
        per_rule = {}
        for rid, r in self.rules.items():
            ii = [i for i in self.insts if i.rule == rid]
            per_rule[rid] = {'description': r['desc'], 'instances': len(ii), 'floor': r['floor'],
                             'ok': sum(1 for i in ii if i.verdict == 'ok'),
                             'exempt': sum(1 for i in ii if i.verdict == 'exempt'),
                             'violations': sum(1 for i in ii if i.verdict == 'violation')}
            if r['control']:
                per_rule[rid]['positive_control_fired'] = r['control_fired']
        samples = []
        by_rule_seen = {}
        for i in self.insts:
            c = by_rule_seen.get(i.rule, 0)
            if c < 3 or i.verdict != 'ok':
                if i.verdict == 'ok':
                    by_rule_seen[i.rule] = c + 1
                if len(samples) < 400:
                    samples.append(i.as_dict())
        distinct = len({(i.rule, i.file, i.construct, i.detail) for i in self.insts})
        ev = {
            'property_id': self.pid,
            'tier': self.tier,
            'seed': int(os.environ.get('VERIF_SEED', '0') or 0),
            'level': self.level,
            'coverage': {
                'explanation': self.explanation or 'static analysis of /repo sources (ast); see rules',
                'obligations': len(self.insts),
                'discharged': sum(1 for i in self.insts if i.verdict in ('ok', 'exempt')),
                'evaluations': len(self.insts),
                'distinct_nontrivial': distinct,
                'rule': 'one obligation per rule instance (file, construct, normal form); distinct = distinct '
                        '(rule, file, construct, normal form) tuples',
                'rules': per_rule,
                'samples': samples,
                'known_findings_matched': [e[1].get('what', '') for e in listed],
                'known_findings_not_reproduced': ['%s %s::%s' % (e['rule'], e['file'], e['construct']) for e in stale],
                'unlisted_violations': [v.as_dict() for v in unlisted][:100],
                'observations': self.observations[:200],
                'modules_consulted': self.consulted_files,
                'analysis_errors': errors,
                'checker_cmd': './check %s --tier %s' % (self.pid, self.tier),
                'trusted_base': ['CPython ast', 'sa/ readers (regex, YAML subset, constant evaluator)'],
            },
            'assumptions': self.assumptions,
            'wall_s': round(wall, 3),
            'violations': len(unlisted),
        }
        if self.level == 'translation_validation':
            ev['coverage']['programs'] = self.extra.get('programs', 0)
            ev['coverage']['disagreements_checked'] = len(viol)
        if self.exhaustive is not None:
            ev['coverage']['exhaustive'] = self.exhaustive
        if self.selftest is not None:
            ev['coverage']['selftest'] = self.selftest
        for k, v in self.extra.items():
            ev['coverage'].setdefault(k, v)
        os.makedirs(os.path.join(VERIF, 'evidence'), exist_ok=True)
        with open(os.path.join(VERIF, 'evidence', self.pid + '.json'), 'w') as f:
            json.dump(ev, f, indent=1, ensure_ascii=False, sort_keys=True)
            f.write('\n')


def load_known():
    out = {}
    if not os.path.exists(KNOWN_FILE):
        return out
    with open(KNOWN_FILE) as f:
        data = json.load(f)
    for e in data.get('findings', []):
        if e.get('status') != 'known':
            continue        # "fixed" entries are a record only: they suppress nothing
        out[(e['property'], e['rule'], e['file'], e['construct'], e['key'])] = e
    return out
