"""E3 - constant evaluator for the generated resource modules (no import, no execution).

A resource class body is a sequence of
    Name = f'...{Other}...{BaseX.Name}...'   | 'str' | True/False | dict([(k, v), ...]) | [ ... ]
    def Name(p, q): return f'...{p}...'
`evaluate(cls)` gives name -> python value (str/bool/dict/list) or Template for the parameterised ones.
"""
import ast

from .core import AnalysisError


class Template:
    """parameterised regex: params + f-string AST; call .fill(args) for the text"""

    def __init__(self, params, node, env):
        self.params = params
        self.node = node
        self.env = env

    def fill(self, *args):
        env = dict(self.env)
        env.update(zip(self.params, args))
        return _eval(self.node, env, None)

    def __repr__(self):
        return '<Template(%s)>' % ','.join(self.params)


class Resources:
    def __init__(self, idx):
        self.idx = idx
        self._vals = {}

    def values(self, cls):
        """cls: index.Cls of a resource class -> dict name -> value (in definition order)"""
        if cls.qual in self._vals:
            return self._vals[cls.qual]
        env = {}
        self._vals[cls.qual] = env
        # imported resource classes visible by name
        outer = _Outer(self, cls.mod)
        for st in cls.node.body:
            if isinstance(st, ast.Assign) and len(st.targets) == 1 and isinstance(st.targets[0], ast.Name):
                try:
                    env[st.targets[0].id] = _eval(st.value, env, outer)
                except _Unevaluable as e:
                    raise AnalysisError('%s:%d %s.%s: cannot evaluate (%s)' % (cls.mod.rel, st.lineno, cls.name,
                                                                            st.targets[0].id, e))
            elif isinstance(st, ast.FunctionDef):
                if len(st.body) == 1 and isinstance(st.body[0], ast.Return):
                    env[st.name] = Template([a.arg for a in st.args.args], st.body[0].value, _Chain(env, outer))
                else:
                    raise AnalysisError('%s:%d %s.%s: unexpected function shape in a resource class'
                                        % (cls.mod.rel, st.lineno, cls.name, st.name))
            elif isinstance(st, (ast.Pass, ast.Expr)):
                continue
            else:
                raise AnalysisError('%s:%d unexpected statement %s in resource class %s'
                                    % (cls.mod.rel, st.lineno, type(st).__name__, cls.name))
        return env

    def by_name(self, mod, name):
        """resource class named `name` as visible from module `mod`"""
        c = self.idx.resolve_class(mod, ast.Name(id=name))
        if c is None:
            return None
        return self.values(c)

    def get(self, qual):
        return self.values(self.idx.cls(qual))


class _Unevaluable(Exception):
    pass


class _Outer:
    def __init__(self, res, mod):
        self.res = res
        self.mod = mod

    def cls_values(self, name):
        v = self.res.by_name(self.mod, name)
        if v is None:
            raise _Unevaluable('unknown class %s' % name)
        return v


class _Chain(dict):
    """env for templates: class env (live) + outer"""

    def __init__(self, env, outer):
        super().__init__()
        self.env = env
        self.outer = outer

    def __contains__(self, k):
        return dict.__contains__(self, k) or k in self.env

    def __getitem__(self, k):
        if dict.__contains__(self, k):
            return dict.__getitem__(self, k)
        return self.env[k]


def _eval(n, env, outer):
    if isinstance(env, _Chain) and outer is None:
        outer = env.outer
    if isinstance(n, ast.Constant):
        return n.value
    if isinstance(n, ast.JoinedStr):
        out = []
        for p in n.values:
            if isinstance(p, ast.Constant):
                out.append(p.value)
            elif isinstance(p, ast.FormattedValue):
                if p.conversion != -1 or p.format_spec is not None:
                    raise _Unevaluable('format spec')
                v = _eval(p.value, env, outer)
                if isinstance(v, Template):
                    raise _Unevaluable('template used as value')
                out.append(str(v))
        return ''.join(out)
    if isinstance(n, ast.Name):
        if n.id in env:
            return env[n.id]
        raise _Unevaluable('name %s' % n.id)
    if isinstance(n, ast.Attribute) and isinstance(n.value, ast.Name):
        if outer is None:
            raise _Unevaluable('attribute %s' % ast.unparse(n))
        vals = outer.cls_values(n.value.id)
        if n.attr not in vals:
            raise _Unevaluable('%s has no %s' % (n.value.id, n.attr))
        return vals[n.attr]
    if isinstance(n, ast.Call) and isinstance(n.func, ast.Name) and n.func.id == 'dict' and len(n.args) == 1:
        pairs = _eval(n.args[0], env, outer)
        d = {}
        for kv in pairs:
            d[kv[0]] = kv[1]
        return d
    if isinstance(n, (ast.List, ast.Tuple)):
        return [_eval(e, env, outer) for e in n.elts]
    if isinstance(n, ast.UnaryOp) and isinstance(n.op, ast.USub):
        return -_eval(n.operand, env, outer)
    if isinstance(n, ast.Call) and isinstance(n.func, (ast.Name, ast.Attribute)):
        f = _eval(n.func, env, outer)
        if isinstance(f, Template):
            return f.fill(*[_eval(a, env, outer) for a in n.args])
    raise _Unevaluable(type(n).__name__ + ' ' + ast.unparse(n)[:40])


def dict_pairs(node):
    """dict([...]) AST -> ordered list of (key, value) python pairs incl. duplicates, or None"""
    if isinstance(node, ast.Call) and isinstance(node.func, ast.Name) and node.func.id == 'dict' and len(node.args) == 1:
        try:
            return [tuple(x) for x in ast.literal_eval(node.args[0])]
        except Exception:
            return None
    if isinstance(node, ast.Dict):
        try:
            return list(zip([ast.literal_eval(k) for k in node.keys], [ast.literal_eval(v) for v in node.values]))
        except Exception:
            return None
    return None
