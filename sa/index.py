"""E1 - source index over Python/libraries/*: modules, classes (MRO), functions, import resolution."""
import ast
import os

from .core import LIBS, REPO, AnalysisError, rel

_CACHE = {}


class Mod:
    def __init__(self, name, path, tree, src):
        self.name = name
        self.path = path
        self.tree = tree
        self.src = src
        self.is_pkg = os.path.basename(path) == '__init__.py'
        self.classes = {}     # name -> Cls
        self.funcs = {}       # name -> ast.FunctionDef
        self.assigns = {}     # module-level name -> value node (last)
        self.imports = {}     # local name -> ('mod', modname) | ('from', modname, attr)
        self.stars = []       # modnames star-imported

    @property
    def rel(self):
        return rel(self.path)

    def package(self):
        return self.name if self.is_pkg else self.name.rpartition('.')[0]


class Cls:
    def __init__(self, mod, node):
        self.mod = mod
        self.node = node
        self.name = node.name
        self.methods = {}
        self.attrs = {}       # class-level assignments
        for st in node.body:
            if isinstance(st, (ast.FunctionDef, ast.AsyncFunctionDef)):
                self.methods.setdefault(st.name, st)   # first def; property setters share name
                if st.name in self.methods and self.methods[st.name] is not st:
                    self.methods.setdefault('%s#setter' % st.name, st)
            elif isinstance(st, ast.Assign):
                for t in st.targets:
                    if isinstance(t, ast.Name):
                        self.attrs[t.id] = st.value
            elif isinstance(st, ast.AnnAssign) and isinstance(st.target, ast.Name) and st.value is not None:
                self.attrs[st.target.id] = st.value
        self._mro = None

    @property
    def qual(self):
        return self.mod.name + '.' + self.name

    def __repr__(self):
        return '<Cls %s>' % self.qual


class Index:
    def __init__(self, include_generator=False):
        self.mods = {}
        self.by_path = {}
        self.classes_by_name = {}
        self.errors = []
        roots = []
        for d in sorted(os.listdir(LIBS)):
            full = os.path.join(LIBS, d)
            if not os.path.isdir(full):
                continue
            if d == 'resource-generator' and not include_generator:
                continue
            roots.append(full)
        for root in roots:
            for dp, dn, fns in os.walk(root, followlinks=True):
                dn[:] = sorted(x for x in dn if x not in ('__pycache__', 'tests', 'build', 'dist') and not x.endswith('.egg-info'))
                for f in sorted(fns):
                    if not f.endswith('.py') or f == 'setup.py':
                        continue
                    p = os.path.join(dp, f)
                    relp = os.path.relpath(p, root)
                    parts = relp[:-3].split(os.sep)
                    if parts[-1] == '__init__':
                        parts = parts[:-1]
                    if not parts:
                        continue
                    name = '.'.join(parts)
                    try:
                        src = open(p, encoding='utf-8').read()
                        tree = ast.parse(src, filename=p)
                    except (SyntaxError, UnicodeDecodeError) as e:
                        raise AnalysisError('cannot parse %s: %s' % (rel(p), e))
                    m = Mod(name, p, tree, src)
                    self.mods[name] = m
                    self.by_path[rel(p)] = m
        for m in self.mods.values():
            self._scan(m)

    # ---- scanning
    def _abs(self, m, level, module):
        if level == 0:
            return module or ''
        base = m.package().split('.') if m.package() else []
        if level > 1:
            base = base[:len(base) - (level - 1)]
        if module:
            base = base + module.split('.')
        return '.'.join(base)

    def _scan(self, m):
        for st in m.tree.body:
            self._scan_stmt(m, st)

    def _scan_stmt(self, m, st):
        if isinstance(st, ast.ClassDef):
            c = Cls(m, st)
            m.classes[st.name] = c
            self.classes_by_name.setdefault(st.name, []).append(c)
        elif isinstance(st, (ast.FunctionDef, ast.AsyncFunctionDef)):
            m.funcs[st.name] = st
        elif isinstance(st, ast.Assign):
            for t in st.targets:
                if isinstance(t, ast.Name):
                    m.assigns[t.id] = st.value
        elif isinstance(st, ast.Import):
            for a in st.names:
                m.imports[a.asname or a.name.split('.')[0]] = ('mod', a.name if a.asname else a.name.split('.')[0])
        elif isinstance(st, ast.ImportFrom):
            src = self._abs(m, st.level, st.module)
            for a in st.names:
                if a.name == '*':
                    m.stars.append(src)
                else:
                    m.imports[a.asname or a.name] = ('from', src, a.name)
        elif isinstance(st, (ast.If, ast.Try)):
            for s in getattr(st, 'body', []) + getattr(st, 'orelse', []):
                self._scan_stmt(m, s)

    # ---- resolution
    def resolve(self, m, name, _seen=None):
        """resolve a bare name used in module m to ('class', Cls) | ('func', Mod, node) | ('const', Mod, node)
        | ('module', Mod) | None, following imports and star chains"""
        _seen = _seen or set()
        if (m.name, name) in _seen:
            return None
        _seen.add((m.name, name))
        if name in m.classes:
            return ('class', m.classes[name])
        if name in m.funcs:
            return ('func', m, m.funcs[name])
        if name in m.assigns:
            return ('const', m, m.assigns[name])
        imp = m.imports.get(name)
        if imp:
            if imp[0] == 'mod':
                mm = self.mods.get(imp[1])
                return ('module', mm) if mm else None
            src = self.mods.get(imp[1])
            if src is None:
                return None
            sub = self.mods.get(imp[1] + '.' + imp[2])
            r = self.resolve(src, imp[2], _seen)
            if r:
                return r
            if sub is not None:
                return ('module', sub)
            return None
        for s in m.stars:
            src = self.mods.get(s)
            if src is not None:
                r = self.resolve(src, name, _seen)
                if r:
                    return r
        return None

    def resolve_class(self, m, expr):
        """expr: ast node naming a class (Name or Attribute chain through modules)"""
        if isinstance(expr, ast.Name):
            r = self.resolve(m, expr.id)
            if r and r[0] == 'class':
                return r[1]
            return None
        if isinstance(expr, ast.Attribute):
            base = expr.value
            if isinstance(base, ast.Name):
                r = self.resolve(m, base.id)
                if r and r[0] == 'module':
                    r2 = self.resolve(r[1], expr.attr)
                    if r2 and r2[0] == 'class':
                        return r2[1]
        if isinstance(expr, ast.Subscript):   # Generic[T]
            return self.resolve_class(m, expr.value)
        return None

    def bases(self, c):
        out = []
        for b in c.node.bases:
            bc = self.resolve_class(c.mod, b)
            if bc is not None:
                out.append(bc)
        return out

    def mro(self, c):
        if c._mro is not None:
            return c._mro
        c._mro = [c]   # recursion guard
        seqs = [self.mro(b)[:] for b in self.bases(c)] + [self.bases(c)[:]]
        res = [c]
        while True:
            seqs = [s for s in seqs if s]
            if not seqs:
                break
            for s in seqs:
                cand = s[0]
                if not any(cand in t[1:] for t in seqs):
                    break
            else:
                cand = seqs[0][0]   # inconsistent hierarchy: fall back to first
            res.append(cand)
            for s in seqs:
                if s and s[0] is cand:
                    del s[0]
        c._mro = res
        return res

    def find_method(self, c, name):
        for k in self.mro(c):
            if name in k.methods:
                return k, k.methods[name]
        return None, None

    def class_attr(self, c, name):
        for k in self.mro(c):
            if name in k.attrs:
                return k, k.attrs[name]
        return None, None

    def subclasses(self, c):
        return [k for ks in self.classes_by_name.values() for k in ks if c in self.mro(k) and k is not c]

    def all_classes(self):
        for ks in self.classes_by_name.values():
            for k in ks:
                yield k

    def cls(self, qual_or_name):
        """lookup by 'module.Class' or unique bare name"""
        if '.' in qual_or_name:
            mn, _, cn = qual_or_name.rpartition('.')
            m = self.mods.get(mn)
            if m and cn in m.classes:
                return m.classes[cn]
            raise AnalysisError('anchor vanished: class %s' % qual_or_name)
        ks = self.classes_by_name.get(qual_or_name, [])
        if len(ks) == 1:
            return ks[0]
        if not ks:
            raise AnalysisError('anchor vanished: class %s' % qual_or_name)
        raise AnalysisError('ambiguous class name %s (%s)' % (qual_or_name, ', '.join(k.qual for k in ks)))

    def mod(self, name):
        m = self.mods.get(name)
        if m is None:
            raise AnalysisError('anchor vanished: module %s' % name)
        return m

    def functions(self, m=None):
        """yield (Mod, Cls|None, FunctionDef) for every def (methods and module functions, incl. nested)"""
        mods = [m] if m else list(self.mods.values())
        for mm in mods:
            for f in mm.funcs.values():
                yield mm, None, f
            for c in mm.classes.values():
                for st in c.node.body:
                    if isinstance(st, (ast.FunctionDef, ast.AsyncFunctionDef)):
                        yield mm, c, st


def get_index(include_generator=False):
    k = ('idx', include_generator)
    if k not in _CACHE:
        _CACHE[k] = Index(include_generator)
    return _CACHE[k]


def method(idx, clsname, name):
    c = idx.cls(clsname)
    k, f = idx.find_method(c, name)
    if f is None:
        raise AnalysisError('anchor vanished: %s.%s' % (clsname, name))
    return k, f


def own_method(idx, clsname, name):
    c = idx.cls(clsname)
    if name not in c.methods:
        raise AnalysisError('anchor vanished: %s.%s' % (clsname, name))
    return c, c.methods[name]
