"""E4 - reader for the `regex`-module dialect used by the resources.

parse(src) -> Node tree.  Constructs that are recognised but not modelled raise RxUnsupported
(a rule then reports "not analysable", never guesses).

enumerate_language(node)  finite over-approximation L+ :
    \\s+ -> ' ' ; \\s* -> {'', ' '} ; look-arounds, anchors, \\b -> epsilon ; bounded repeats expanded ;
    unbounded repeats refused (RxUnbounded) unless cap given.
is_exact(node)            True when no look-around / anchor / backreference occurs, i.e. L+ is the language
                          (modulo the whitespace abstraction).
find_group(node, name)    sub-trees of the named group(s)
matches(node, word)       membership of a word in L+ under the same abstractions (backtracking matcher)
"""
import re as _re


class RxError(Exception):
    pass


class RxUnsupported(RxError):
    pass


class RxUnbounded(RxError):
    pass


class RxTooMany(RxError):
    pass


class Node:
    __slots__ = ('kind', 'items', 'node', 'name', 'lo', 'hi', 'c', 'neg', 'dir', 'lazy')

    def __init__(self, kind, **kw):
        self.kind = kind
        self.items = self.node = self.name = self.lo = self.hi = self.c = self.neg = self.dir = None
        self.lazy = False
        for k, v in kw.items():
            setattr(self, k, v)

    def __repr__(self):
        return unparse(self)


class _P:
    def __init__(self, src):
        self.s = src
        self.i = 0
        self.groups = []
        self.ngroups = 0

    def peek(self, n=1):
        return self.s[self.i:self.i + n]

    def eof(self):
        return self.i >= len(self.s)

    def parse(self):
        n = self.alt()
        if not self.eof():
            raise RxError('unbalanced ) at %d: %r' % (self.i, self.s[max(0, self.i - 20):self.i + 20]))
        return n

    def alt(self):
        alts = [self.seq()]
        while self.peek() == '|':
            self.i += 1
            alts.append(self.seq())
        return alts[0] if len(alts) == 1 else Node('alt', items=alts)

    def seq(self):
        items = []
        while not self.eof() and self.peek() not in '|)':
            a = self.atom()
            if a is None:
                continue
            a = self.quant(a)
            items.append(a)
        if len(items) == 1:
            return items[0]
        return Node('seq', items=items)

    def quant(self, a):
        while not self.eof():
            c = self.peek()
            if c == '*':
                lo, hi = 0, None
                self.i += 1
            elif c == '+':
                lo, hi = 1, None
                self.i += 1
            elif c == '?':
                lo, hi = 0, 1
                self.i += 1
            elif c == '{':
                j = self.s.find('}', self.i)
                m = _re.fullmatch(r'(\d*)(,(\d*))?', self.s[self.i + 1:j]) if j > 0 else None
                if not m or (m.group(1) == '' and m.group(2) is None):
                    return a
                lo = int(m.group(1) or 0)
                hi = lo if m.group(2) is None else (int(m.group(3)) if m.group(3) else None)
                self.i = j + 1
            else:
                return a
            lazy = False
            if self.peek() == '?':
                lazy = True
                self.i += 1
            elif self.peek() == '+':
                self.i += 1      # possessive: same language over-approximation
            if a.kind in ('anchor', 'look') and lo == 0:
                a = Node('seq', items=[])
                continue
            a = Node('rep', node=a, lo=lo, hi=hi, lazy=lazy)
        return a

    def atom(self):
        c = self.peek()
        if c == '(':
            self.i += 1
            name = None
            kind = 'group'
            dir_ = None
            capturing = True
            if self.peek() == '?':
                self.i += 1
                c2 = self.peek()
                if c2 == ':':
                    self.i += 1
                    capturing = False
                elif c2 == '>':
                    self.i += 1
                    capturing = False
                elif c2 == '#':
                    j = self.s.find(')', self.i)
                    self.i = j + 1
                    return None
                elif c2 in '=!':
                    self.i += 1
                    kind, dir_ = 'look', ('ahead' if c2 == '=' else 'nahead')
                elif self.peek(2) in ('<=', '<!'):
                    kind, dir_ = 'look', ('behind' if self.peek(2) == '<=' else 'nbehind')
                    self.i += 2
                elif c2 == '<' or self.peek(2) == 'P<' or c2 == "'":
                    if c2 == 'P':
                        self.i += 1
                    close = "'" if c2 == "'" else '>'
                    j = self.s.find(close, self.i + 1)
                    name = self.s[self.i + 1:j]
                    if not _re.fullmatch(r'\w+', name):
                        raise RxError('bad group name %r' % name)
                    self.i = j + 1
                    self.groups.append(name)
                elif c2 == '(':
                    raise RxUnsupported('conditional')
                elif self.peek(2) in ('P=', 'P>') or c2 in '&R' or c2.isdigit():
                    raise RxUnsupported('recursion / named reference')
                else:
                    j = self.i
                    while j < len(self.s) and self.s[j] not in ':)':
                        j += 1
                    flags = self.s[self.i:j]
                    if not _re.fullmatch(r'[aiLmsuxfwbeprV01-]+', flags):
                        raise RxError('unknown group syntax (?%s' % flags)
                    if 'x' in flags.split('-')[0]:
                        raise RxUnsupported('verbose flag')
                    if self.s[j] == ')':
                        self.i = j + 1
                        return Node('flags', c=flags)
                    self.i = j + 1
                    capturing = False
            n = self.alt()
            if self.peek() != ')':
                raise RxError('expected ) at %d' % self.i)
            self.i += 1
            if kind == 'look':
                return Node('look', node=n, dir=dir_)
            if capturing:
                self.ngroups += 1
            return Node('group', node=n, name=name, c=capturing)
        if c == '[':
            return self.cls()
        if c == '\\':
            return self.esc()
        if c == '.':
            self.i += 1
            return Node('any')
        if c == '^':
            self.i += 1
            return Node('anchor', c='^')
        if c == '$':
            self.i += 1
            return Node('anchor', c='$')
        self.i += 1
        return Node('lit', c=c)

    def esc(self, incls=False):
        self.i += 1
        if self.eof():
            raise RxError('dangling backslash')
        c = self.peek()
        self.i += 1
        if c in 'dDwWsS':
            return Node('cc', c=c)
        if c in 'bBAZzGmM' and not incls:
            return Node('anchor', c='\\' + c)
        if c == 'b' and incls:
            return Node('lit', c='\b')
        if c in 'pP':
            if self.peek() != '{':
                nm = self.peek()
                self.i += 1
            else:
                j = self.s.find('}', self.i)
                nm = self.s[self.i + 1:j]
                self.i = j + 1
            return Node('cc', c=c + '{' + nm + '}')
        if c == 'u':
            h = self.s[self.i:self.i + 4]
            self.i += 4
            return Node('lit', c=chr(int(h, 16)))
        if c == 'U':
            h = self.s[self.i:self.i + 8]
            self.i += 8
            return Node('lit', c=chr(int(h, 16)))
        if c == 'x':
            h = self.s[self.i:self.i + 2]
            self.i += 2
            return Node('lit', c=chr(int(h, 16)))
        if c.isdigit() and c != '0' and not incls:
            return Node('backref', c=c)
        if c == 'k' and not incls:
            j = self.s.find('>', self.i)
            nm = self.s[self.i + 1:j]
            self.i = j + 1
            return Node('backref', c=nm)
        if c == 'g' and not incls and self.peek() == '<':
            raise RxUnsupported('\\g reference')
        m = {'n': '\n', 't': '\t', 'r': '\r', 'f': '\f', 'v': '\v', '0': '\0', 'a': '\a', 'e': '\x1b'}
        return Node('lit', c=m.get(c, c))

    def cls(self):
        self.i += 1
        neg = False
        if self.peek() == '^':
            neg = True
            self.i += 1
        items = []
        first = True
        while True:
            if self.eof():
                raise RxError('unterminated class')
            c = self.peek()
            if c == ']' and not first:
                self.i += 1
                break
            first = False
            if c == '[' and self.peek(2) == '[:':
                raise RxUnsupported('posix class')
            if self.peek(2) in ('&&', '--', '~~', '||') and c in '&-~|':
                raise RxUnsupported('set operation')
            if c == '\\':
                a = self.esc(True)
            else:
                self.i += 1
                a = Node('lit', c=c)
            if self.peek() == '-' and self.s[self.i + 1:self.i + 2] not in (']', '') and a.kind == 'lit':
                save = self.i
                self.i += 1
                c2 = self.peek()
                if c2 == '\\':
                    b = self.esc(True)
                else:
                    self.i += 1
                    b = Node('lit', c=c2)
                if b.kind != 'lit':
                    self.i = save
                    items.append(a)
                    continue
                if ord(b.c) < ord(a.c):
                    raise RxError('bad range %s-%s' % (a.c, b.c))
                items.append(Node('range', c=(a.c, b.c)))
            else:
                items.append(a)
        return Node('class', neg=neg, items=items)


def parse(src):
    p = _P(src)
    n = p.parse()
    return n


def parse_with_groups(src):
    p = _P(src)
    n = p.parse()
    return n, p.groups


# ---- utilities over trees --------------------------------------------------------------------------

def walk(n):
    yield n
    if n.items:
        for x in n.items:
            if isinstance(x, Node):
                yield from walk(x)
    if n.node is not None:
        yield from walk(n.node)


def group_names(n):
    return [x.name for x in walk(n) if x.kind == 'group' and x.name]


def find_group(n, name):
    return [x for x in walk(n) if x.kind == 'group' and x.name == name]


def is_exact(n):
    """no look-around, anchor or backreference below n: L+ is the true language (modulo \\s abstraction)"""
    for x in walk(n):
        if x.kind in ('look', 'anchor', 'backref'):
            return False
    return True


def unparse(n):
    k = n.kind
    if k == 'lit':
        return _re.escape(n.c) if n.c in '\\.[](){}*+?|^$' else n.c
    if k == 'seq':
        return ''.join(unparse(x) for x in n.items)
    if k == 'alt':
        return '|'.join(unparse(x) for x in n.items)
    if k == 'group':
        inner = unparse(n.node)
        if n.name:
            return '(?<%s>%s)' % (n.name, inner)
        return ('(%s)' if n.c else '(?:%s)') % inner
    if k == 'look':
        return '(?%s%s)' % ({'ahead': '=', 'nahead': '!', 'behind': '<=', 'nbehind': '<!'}[n.dir], unparse(n.node))
    if k == 'rep':
        q = '*' if (n.lo, n.hi) == (0, None) else '+' if (n.lo, n.hi) == (1, None) else '?' if (n.lo, n.hi) == (0, 1) \
            else '{%d}' % n.lo if n.lo == n.hi else '{%d,%s}' % (n.lo, '' if n.hi is None else n.hi)
        inner = unparse(n.node)
        if n.node.kind in ('seq', 'alt'):
            inner = '(?:%s)' % inner
        return inner + q + ('?' if n.lazy else '')
    if k == 'cc':
        return '\\' + n.c
    if k == 'any':
        return '.'
    if k == 'anchor':
        return n.c
    if k == 'backref':
        return '\\k<%s>' % n.c
    if k == 'flags':
        return '(?%s)' % n.c
    if k == 'class':
        out = []
        for it in n.items:
            if it.kind == 'range':
                out.append('%s-%s' % tuple(_cls_esc(x) for x in it.c))
            elif it.kind == 'cc':
                out.append('\\' + it.c)
            else:
                out.append(_cls_esc(it.c))
        return '[%s%s]' % ('^' if n.neg else '', ''.join(out))
    if k == 'sym':
        return '<%s>' % n.c
    return '?' + k


def _cls_esc(ch):
    if ch in '\\]^-[':
        return '\\' + ch
    if ord(ch) < 32 or ord(ch) == 127:
        return '\\x%02x' % ord(ch)
    return ch


def class_chars(n, universe=None):
    """set of characters of a (non-negated, or negated within universe) class / cc node"""
    if n.kind == 'lit':
        return {n.c}
    if n.kind == 'cc':
        if n.c == 'd':
            return set('0123456789')
        if n.c == 's':
            return {' '}
        if universe is not None:
            if n.c == 'w':
                return {ch for ch in universe if ch.isalnum() or ch == '_'}
            if n.c == 'W':
                return {ch for ch in universe if not (ch.isalnum() or ch == '_')}
            if n.c == 'D':
                return {ch for ch in universe if not ch.isdigit()}
            if n.c == 'S':
                return {ch for ch in universe if not ch.isspace()}
        raise RxUnsupported('character class \\%s needs a universe' % n.c)
    if n.kind == 'range':
        return {chr(x) for x in range(ord(n.c[0]), ord(n.c[1]) + 1)}
    if n.kind == 'class':
        s = set()
        for it in n.items:
            s |= class_chars(it, universe)
        if n.neg:
            if universe is None:
                raise RxUnsupported('negated class needs a universe')
            return set(universe) - s
        return s
    raise RxUnsupported('not a class: ' + n.kind)


def enumerate_language(n, limit=200000, universe=None, unbounded_cap=None, fold_case=False):
    """finite over-approximate language of n as a set of strings"""
    k = n.kind
    if k == 'lit':
        return {n.c.lower() if fold_case else n.c}
    if k == 'sym':
        return {n.c}
    if k == 'seq':
        res = {''}
        for it in n.items:
            e = enumerate_language(it, limit, universe, unbounded_cap, fold_case)
            if len(res) * len(e) > limit:
                raise RxTooMany('language larger than %d' % limit)
            res = {a + b for a in res for b in e}
        return res
    if k == 'alt':
        r = set()
        for a in n.items:
            r |= enumerate_language(a, limit, universe, unbounded_cap, fold_case)
            if len(r) > limit:
                raise RxTooMany('language larger than %d' % limit)
        return r
    if k == 'group':
        return enumerate_language(n.node, limit, universe, unbounded_cap, fold_case)
    if k in ('look', 'anchor', 'flags'):
        return {''}
    if k == 'rep':
        inner = n.node
        while inner.kind == 'group':
            inner = inner.node
        if inner.kind == 'cc' and inner.c == 's' or (inner.kind == 'class' and not inner.neg and inner.items and all(
                (i.kind == 'cc' and i.c == 's') or (i.kind == 'lit' and i.c in ' \t') for i in inner.items)):
            return {' '} if n.lo >= 1 else {'', ' '}
        e = enumerate_language(n.node, limit, universe, unbounded_cap, fold_case)
        if n.hi is None:
            if e == {''}:
                return {''}
            if unbounded_cap is None:
                raise RxUnbounded('unbounded repeat of %s' % unparse(n.node)[:40])
            hi = max(n.lo, unbounded_cap)
        else:
            hi = n.hi
        res = set()
        cur = {''}
        for cnt in range(0, hi + 1):
            if cnt >= n.lo:
                res |= cur
            if cnt == hi:
                break
            if len(cur) * len(e) > limit:
                raise RxTooMany('language larger than %d' % limit)
            cur = {a + b for a in cur for b in e}
        return res
    if k in ('cc', 'class', 'range'):
        s = class_chars(n, universe)
        return {c.lower() for c in s} if fold_case else s
    if k == 'any':
        if universe is None:
            raise RxUnsupported('. needs a universe')
        return set(universe)
    if k == 'backref':
        raise RxUnsupported('backreference')
    raise RxError('cannot enumerate ' + k)


def substitute(n, pred, sym):
    """copy of the tree where every sub-tree satisfying pred(node) is replaced by the atomic symbol sym"""
    if pred(n):
        return Node('sym', c=sym)
    m = Node(n.kind, items=None, node=None, name=n.name, lo=n.lo, hi=n.hi, c=n.c, neg=n.neg, dir=n.dir, lazy=n.lazy)
    if n.items is not None:
        m.items = [substitute(x, pred, sym) if isinstance(x, Node) else x for x in n.items]
    if n.node is not None:
        m.node = substitute(n.node, pred, sym)
    return m


# ---- membership ------------------------------------------------------------------------------------

def _ch_match(n, ch):
    k = n.kind
    if k == 'lit':
        return n.c == ch or n.c.lower() == ch.lower()
    if k == 'any':
        return ch != '\n'
    if k == 'cc':
        c = n.c
        if c == 'd':
            return ch.isdigit()
        if c == 'D':
            return not ch.isdigit()
        if c == 'w':
            return ch.isalnum() or ch == '_'
        if c == 'W':
            return not (ch.isalnum() or ch == '_')
        if c == 's':
            return ch.isspace()
        if c == 'S':
            return not ch.isspace()
        if c.startswith('p{') or c.startswith('P{'):
            import unicodedata
            cat = unicodedata.category(ch)
            want = c[2:-1]
            alias = {'L': 'L', 'Lu': 'Lu', 'Ll': 'Ll', 'N': 'N', 'Nd': 'Nd', 'P': 'P', 'Z': 'Z', 'S': 'S', 'M': 'M',
                     'IsHan': None, 'Han': None}
            if want in ('IsHan', 'Han', 'IsCJKUnifiedIdeographs'):
                r = 0x4e00 <= ord(ch) <= 0x9fff
            elif want in alias:
                r = cat.startswith(want)
            else:
                raise RxUnsupported('unicode property ' + want)
            return r if c[0] == 'p' else not r
        raise RxUnsupported('cc ' + c)
    if k == 'range':
        return n.c[0] <= ch <= n.c[1] or n.c[0] <= ch.lower() <= n.c[1] or n.c[0] <= ch.upper() <= n.c[1]
    if k == 'class':
        r = any(_ch_match(it, ch) for it in n.items)
        return (not r) if n.neg else r
    raise RxError('not a char matcher: ' + k)


def _m(n, w, i, k, depth=0):
    """generator-free CPS matcher: does n match w starting at i, continuing with k(j)"""
    kind = n.kind
    if kind in ('lit', 'any', 'cc', 'class', 'range'):
        return i < len(w) and _ch_match(n, w[i]) and k(i + 1)
    if kind == 'sym':
        return w.startswith(n.c, i) and k(i + len(n.c))
    if kind == 'seq':
        def run(idx, j):
            if idx == len(n.items):
                return k(j)
            return _m(n.items[idx], w, j, lambda j2: run(idx + 1, j2))
        return run(0, i)
    if kind == 'alt':
        return any(_m(a, w, i, k) for a in n.items)
    if kind == 'group':
        return _m(n.node, w, i, k)
    if kind in ('look', 'anchor', 'flags'):
        return k(i)             # over-approximation: assertions always succeed
    if kind == 'backref':
        raise RxUnsupported('backreference')
    if kind == 'rep':
        hi = n.hi

        def rep(cnt, j):
            if cnt >= n.lo and k(j):
                return True
            if hi is not None and cnt >= hi:
                return False
            return _m(n.node, w, j, lambda j2: j2 > j and rep(cnt + 1, j2) or (j2 == j and cnt < n.lo and rep(cnt + 1, j2)))
        return rep(0, i)
    raise RxError('cannot match ' + kind)


def matches(n, word):
    """word in L+(n)?  (assertions succeed; case-insensitive as the extractors compile with IGNORECASE)"""
    import sys
    if sys.getrecursionlimit() < 20000:
        sys.setrecursionlimit(20000)
    return bool(_m(n, word, 0, lambda j: j == len(word)))


def first_chars_may_be_space(n):
    """can a non-empty match of n begin with whitespace? (over-approximation)"""
    return _edge_space(n, True)


def last_chars_may_be_space(n):
    return _edge_space(n, False)


def _nullable(n):
    k = n.kind
    if k in ('look', 'anchor', 'flags'):
        return True
    if k in ('lit', 'any', 'cc', 'class', 'range', 'sym', 'backref'):
        return False
    if k == 'seq':
        return all(_nullable(x) for x in n.items)
    if k == 'alt':
        return any(_nullable(x) for x in n.items)
    if k == 'group':
        return _nullable(n.node)
    if k == 'rep':
        return n.lo == 0 or _nullable(n.node)
    return True


def _edge_space(n, first):
    k = n.kind
    if k == 'lit':
        return n.c.isspace()
    if k == 'cc':
        return n.c in ('s', 'W', 'D') or n.c.startswith('P{')
    if k == 'any':
        return True
    if k == 'class':
        if n.neg:
            return not any((it.kind == 'cc' and it.c == 's') for it in n.items)
        return any(_edge_space(it, first) for it in n.items)
    if k == 'range':
        return n.c[0] <= ' ' <= n.c[1]
    if k in ('look', 'anchor', 'flags', 'sym'):
        return False
    if k == 'backref':
        return True
    if k == 'group':
        return _edge_space(n.node, first)
    if k == 'rep':
        return _edge_space(n.node, first)
    if k == 'alt':
        return any(_edge_space(x, first) for x in n.items)
    if k == 'seq':
        items = n.items if first else list(reversed(n.items))
        for x in items:
            if _edge_space(x, first):
                return True
            if not _nullable(x):
                return False
        return False
    return True
