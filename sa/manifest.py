"""Regenerates /verif/MANIFEST.json from the META blocks of sa/props/cNN.py (maintainer tool)."""
import importlib
import json
import os

from .core import VERIF

NOT_APPLICABLE = {}
# properties whose checker was reviewed, runs clean (or with listed known findings) on the pinned tree and was
# exercised with breaking / benign edits.  Anything else stays under not_applicable as "pending".
READY = ['C01', 'C03', 'C04', 'C05', 'C06', 'C07', 'C08', 'C09', 'C10', 'C11', 'C12', 'C13', 'C14', 'C15', 'C16', 'C17', 'C18', 'C19', 'C20']
READY.insert(1, 'C02')
PENDING = 'checker for this property is not built yet in this session (design in DESIGN.md); not claimed until it is'


def main():
    ids = ['C%02d' % i for i in range(1, 21)]
    checks, na = [], []
    for pid in ids:
        if pid in NOT_APPLICABLE:
            na.append({'property_id': pid, 'reason': NOT_APPLICABLE[pid]})
            continue
        try:
            if pid not in READY:
                raise ImportError('not accepted yet')
            mod = importlib.import_module('sa.props.' + pid.lower())
            meta = mod.META
        except (ImportError, AttributeError):
            na.append({'property_id': pid, 'reason': PENDING})
            continue
        c = {
            'property_id': pid,
            'quick_cmd': './check %s --tier quick' % pid,
            'thorough_cmd': './check %s --tier thorough' % pid,
            'evidence_file': 'evidence/%s.json' % pid,
            'replay_cmd_template': './check %s --replay {path}' % pid,
            'engine': 'sa',
            'level_claimed': {'category': getattr(mod, 'LEVEL', 'other'), 'text': meta['text'],
                              'design_ref': 'DESIGN.md section 3, ' + pid},
            'level_note': meta['note'],
            'technique': meta['technique'],
        }
        checks.append(c)
    man = {
        'version': 1,
        'setup_cmd': 'true',
        'hooks': {
            'guard': 'RECOGNIZERS_TEXT_VERIF',
            'enable': 'none needed: the checks read /repo sources with ast and never execute them; no hook commits exist',
            'baseline_off_cmd': 'cd /repo && /venv/bin/python -m pytest -ra -q -p no:cacheprovider --timeout=900 '
                                '--continue-on-collection-errors',
            'source_commits': [],
            'add_only': True,
        },
        'engines': [{
            'name': 'sa', 'path': 'sa/',
            'serves_properties': [c['property_id'] for c in checks],
            'kind_free_text': 'repository-specific static analysis over CPython ast: source index with MRO and import '
                              'resolution, constant evaluator for generated resource modules, regex-dialect reader '
                              'with finite-language enumeration, YAML-subset reader, linear offset algebra, effect '
                              'analysis, rule runtime with instance floors / positive controls / known findings',
        }],
        'checks': checks,
        'not_applicable': na,
        'notes': 'Static-analysis family only. Every claim is for the clauses named in level_claimed.text; what is not '
                 'decided is stated in level_note and in DESIGN.md. Known genuine defects: known_findings.json.',
    }
    with open(os.path.join(VERIF, 'MANIFEST.json'), 'w') as f:
        json.dump(man, f, indent=1, ensure_ascii=False)
        f.write('\n')
    print('claimed: %s' % ' '.join(c['property_id'] for c in checks))
    print('not applicable / pending: %s' % ' '.join(x['property_id'] for x in na))


if __name__ == '__main__':
    main()
