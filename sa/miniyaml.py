"""E7 - YAML-subset reader for Patterns/**/*.yaml (block mappings, custom tags, flow sequences, scalars).
Produces a node tree: ('map', tag, [(keynode, valnode)...]) | ('seq', tag, [nodes]) | ('scalar', tag, value, style)
Unsupported constructs (anchors, block scalars, flow maps, tabs) raise YamlError - never guessed.
"""
import re


class YamlError(Exception):
    pass


def _strip_comment(s):
    # remove trailing ' #...' comment from a plain (unquoted) remainder
    out = []
    i = 0
    n = len(s)
    while i < n:
        c = s[i]
        if c == '#' and (i == 0 or s[i - 1] in ' \t'):
            break
        out.append(c)
        i += 1
    return ''.join(out).rstrip()


def _parse_sq(s, i):
    # s[i] == "'"
    i += 1
    buf = []
    while True:
        if i >= len(s):
            raise YamlError('unterminated single-quoted scalar')
        c = s[i]
        if c == "'":
            if i + 1 < len(s) and s[i + 1] == "'":
                buf.append("'")
                i += 2
                continue
            return ''.join(buf), i + 1
        buf.append(c)
        i += 1


_DQ_ESC = {'0': '\0', 'a': '\a', 'b': '\b', 't': '\t', 'n': '\n', 'v': '\v', 'f': '\f', 'r': '\r', 'e': '\x1b',
           ' ': ' ', '"': '"', '/': '/', '\\': '\\', 'N': '\x85', '_': '\xa0', 'L': ' ', 'P': ' '}


def _parse_dq(s, i):
    i += 1
    buf = []
    while True:
        if i >= len(s):
            raise YamlError('unterminated double-quoted scalar')
        c = s[i]
        if c == '"':
            return ''.join(buf), i + 1
        if c == '\\':
            e = s[i + 1]
            if e in _DQ_ESC:
                buf.append(_DQ_ESC[e]); i += 2
            elif e == 'x':
                buf.append(chr(int(s[i + 2:i + 4], 16))); i += 4
            elif e == 'u':
                buf.append(chr(int(s[i + 2:i + 6], 16))); i += 6
            elif e == 'U':
                buf.append(chr(int(s[i + 2:i + 10], 16))); i += 10
            else:
                raise YamlError('bad escape \\' + e)
            continue
        buf.append(c)
        i += 1


def _parse_flow_seq(s, i):
    # s[i] == '['
    i += 1
    items = []
    while True:
        while i < len(s) and s[i] in ' \t':
            i += 1
        if i >= len(s):
            raise YamlError('unterminated flow sequence')
        if s[i] == ']':
            return ('seq', None, items), i + 1
        if s[i] == "'":
            v, i = _parse_sq(s, i); items.append(('scalar', None, v, "'"))
        elif s[i] == '"':
            v, i = _parse_dq(s, i); items.append(('scalar', None, v, '"'))
        else:
            j = i
            while j < len(s) and s[j] not in ',]':
                j += 1
            items.append(('scalar', None, s[i:j].strip(), ''))
            i = j
        while i < len(s) and s[i] in ' \t':
            i += 1
        if i < len(s) and s[i] == ',':
            i += 1


def _parse_value(rest):
    """rest: text after 'key:' (already lstripped). returns (tag, node or None)"""
    tag = None
    rest = rest.strip()
    if rest.startswith('!'):
        m = re.match(r'(!\w+)\s*(.*)$', rest)
        tag = m.group(1)
        rest = m.group(2).strip()
    if rest == '' or rest.startswith('#'):
        return tag, None
    if rest[0] == "'":
        v, i = _parse_sq(rest, 0)
        tail = rest[i:].strip()
        if tail and not tail.startswith('#'):
            raise YamlError('trailing after quoted scalar: ' + tail)
        return tag, ('scalar', tag, v, "'")
    if rest[0] == '"':
        v, i = _parse_dq(rest, 0)
        tail = rest[i:].strip()
        if tail and not tail.startswith('#'):
            raise YamlError('trailing after quoted scalar: ' + tail)
        return tag, ('scalar', tag, v, '"')
    if rest[0] == '[':
        node, i = _parse_flow_seq(rest, 0)
        return tag, ('seq', tag, node[2])
    if rest[0] in '|>&*{':
        raise YamlError('unsupported construct: ' + rest[:20])
    return tag, ('scalar', tag, _strip_comment(rest), '')


def _split_key(body):
    """body: line content without indentation / '- '. returns (keynode, rest) or None if not a mapping entry"""
    if body[0] == "'":
        k, i = _parse_sq(body, 0)
        style = "'"
    elif body[0] == '"':
        k, i = _parse_dq(body, 0)
        style = '"'
    else:
        m = re.search(r':(\s|$)', body)
        if not m:
            return None
        k = body[:m.start()].rstrip()
        return ('scalar', None, k, ''), body[m.end():]
    rest = body[i:].lstrip()
    if not rest.startswith(':'):
        return None
    return ('scalar', None, k, style), rest[1:]


def load(text):
    lines = []
    for raw in text.lstrip('﻿').split('\n'):
        s = raw.rstrip('\r')
        st = s.strip()
        if st == '' or st.startswith('#') or st == '---' or st == '...':
            continue
        if '\t' in s[:len(s) - len(s.lstrip())]:
            raise YamlError('tab indentation')
        lines.append((len(s) - len(s.lstrip(' ')), s.strip()))
    pos = [0]

    def parse_block(indent):
        # decide map or seq by first line
        if pos[0] >= len(lines):
            return None
        ind, body = lines[pos[0]]
        if body.startswith('- ') or body == '-':
            items = []
            while pos[0] < len(lines) and lines[pos[0]][0] == ind and (lines[pos[0]][1].startswith('- ') or lines[pos[0]][1] == '-'):
                b = lines[pos[0]][1][2:].strip()
                pos[0] += 1
                tag, node = _parse_value(b) if b else (None, None)
                if node is None:
                    node = parse_block(ind + 1)
                items.append(node)
            return ('seq', None, items)
        entries = []
        while pos[0] < len(lines) and lines[pos[0]][0] == ind:
            body = lines[pos[0]][1]
            sk = _split_key(body)
            if sk is None:
                raise YamlError('not a mapping entry: ' + body[:60])
            key, rest = sk
            pos[0] += 1
            tag, node = _parse_value(rest)
            if node is None:
                # nested block (more indented) or empty
                if pos[0] < len(lines) and lines[pos[0]][0] > ind:
                    child = parse_block(lines[pos[0]][0])
                    node = (child[0], tag, child[2])
                elif pos[0] < len(lines) and lines[pos[0]][0] == ind and (lines[pos[0]][1].startswith('- ')):
                    child = parse_block(ind)  # sequence at same indent as key
                    node = (child[0], tag, child[2])
                else:
                    node = ('scalar', tag, '', '')
            entries.append((key, node))
        if pos[0] < len(lines) and lines[pos[0]][0] > ind:
            raise YamlError('unexpected indentation at: ' + lines[pos[0]][1][:60])
        return ('map', None, entries)

    root = parse_block(0)
    if pos[0] != len(lines):
        raise YamlError('trailing content at: ' + lines[pos[0]][1][:60])
    return root
