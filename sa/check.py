"""python -m sa.check <Cnn> [--tier quick|thorough] [--replay path]"""
import importlib
import json
import os
import sys
import traceback

from . import core


def main(argv):
    if not argv or argv[0].startswith('-'):
        print('usage: check <Cnn> [--tier quick|thorough] [--replay path]')
        return 2
    pid = argv[0].upper()
    tier = os.environ.get('VERIF_TIER', 'quick')
    replay = None
    i = 1
    while i < len(argv):
        if argv[i] == '--tier':
            tier = argv[i + 1]
            i += 2
        elif argv[i] == '--replay':
            replay = argv[i + 1]
            i += 2
        else:
            print('unknown argument ' + argv[i])
            return 2
    if tier not in ('quick', 'thorough'):
        tier = 'quick'
    try:
        mod = importlib.import_module('sa.props.' + pid.lower())
    except ImportError as e:
        print('ANALYSIS-ERROR property=%s no checker module (%s)' % (pid, e))
        return 2
    try:
        chk = core.Check(pid, tier, getattr(mod, 'LEVEL', 'other'), getattr(mod, 'DESIGN_REF', ''))
        mod.run(chk)
        if tier == 'thorough' and hasattr(mod, 'thorough'):
            mod.thorough(chk)
        if tier == 'thorough' and not os.environ.get('VERIF_VARIANT'):
            from . import variants
            st = variants.run_all(chk)
            if st is not None:
                chk.selftest = st
                for line in st['problems']:
                    print('SELFTEST-PROBLEM ' + line)
                if st['stale']:
                    print('SELFTEST-NOTE stale variants (edit text no longer present): ' + ', '.join(st['stale']))
                print('SELFTEST %s: %d variants, breaking reported %d/%d (+%d failed closed), benign silent %d/%d'
                      % (pid, st['variants'], st['breaking_reported'], st['breaking'], st['breaking_failed_closed'],
                         st['benign_silent'], st['benign']))
        rc = chk.finish()
        if chk.selftest and chk.selftest['problems'] and rc == 0:
            print('ANALYSIS-ERROR property=%s variant self-test: the checker missed a recorded breaking variant or flagged '
                  'a behaviour-preserving one (see SELFTEST-PROBLEM lines)' % pid)
            rc = 2
    except core.AnalysisError as e:
        print('ANALYSIS-ERROR property=%s %s' % (pid, e))
        try:
            # leave no stale evidence behind: record that this run could not decide
            if not os.environ.get('VERIF_VARIANT'):
                chk.explanation = (chk.explanation + ' ' if chk.explanation else '') + '[this run ended in ANALYSIS-ERROR: %s]' % str(e)[:400]
                chk._write_evidence([], [], [], [], ['%s' % e], 0.0)
        except Exception:
            pass
        return 2
    except Exception as e:
        traceback.print_exc()
        print('ANALYSIS-ERROR property=%s internal error in checker (traceback above)' % pid)
        try:
            if not os.environ.get('VERIF_VARIANT'):
                chk = core.Check(pid, tier, getattr(mod, 'LEVEL', 'other'))
                chk.explanation = '[this run ended in ANALYSIS-ERROR: internal error %s]' % repr(e)[:300]
                chk._write_evidence([], [], [], [], [repr(e)[:300]], 0.0)
        except Exception:
            pass
        return 2
    if replay:
        try:
            want = json.load(open(replay))['instance']['key']
        except Exception as e:
            print('cannot read replay file: %s' % e)
            return 2
        hit = [x for x in chk.insts if x.key == want and x.verdict == 'violation']
        print('REPLAY %s: %s' % (want, 'still fires' if hit else 'does not fire on this tree'))
        return 1 if hit else 0
    return rc


if __name__ == '__main__':
    sys.stdout.reconfigure(line_buffering=True)
    rc = main(sys.argv[1:])
    sys.stdout.flush()
    os._exit(rc)
