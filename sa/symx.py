"""E5 - offset algebra: intra-procedural, path-enumerating symbolic walk over one function.

Numbers are linear forms over atoms (Lin); strings are slices of a base with linear bounds, concatenations,
"text of object o", match groups or opaque atoms; objects live in a small heap keyed by (object id, field).
Two judgements are offered to rules: normal-form equality of Lin values and the span-coherence judgement
`judge_span` for (start, length, text) triples.  No solver: identity of normal forms only.
"""
import ast
import itertools

MAX_PATHS = 96


# ------------------------------------------------------------------------------------------------ values

class Lin:
    __slots__ = ('c', 't')

    def __init__(self, c=0, t=None):
        self.c = c
        self.t = {k: v for k, v in (t or {}).items() if v != 0}

    @staticmethod
    def atom(a):
        return Lin(0, {a: 1})

    def __add__(self, o):
        t = dict(self.t)
        for k, v in o.t.items():
            t[k] = t.get(k, 0) + v
        return Lin(self.c + o.c, t)

    def __neg__(self):
        return Lin(-self.c, {k: -v for k, v in self.t.items()})

    def __sub__(self, o):
        return self + (-o)

    def scale(self, k):
        return Lin(self.c * k, {a: v * k for a, v in self.t.items()})

    def key(self):
        return (self.c, tuple(sorted(((repr(k), v) for k, v in self.t.items()))))

    def __eq__(self, o):
        return isinstance(o, Lin) and self.key() == o.key()

    def __hash__(self):
        return hash(self.key())

    def is_const(self):
        return not self.t

    def __repr__(self):
        parts = []
        for k, v in sorted(self.t.items(), key=lambda kv: repr(kv[0])):
            name = show_atom(k)
            parts.append(name if v == 1 else '-' + name if v == -1 else '%d*%s' % (v, name))
        if self.c or not parts:
            parts.append(str(self.c))
        return ' + '.join(parts).replace('+ -', '- ')


def show_atom(a):
    if isinstance(a, tuple) and a and isinstance(a[0], str):
        if a[0] == 'fld':
            return '%s.%s' % (show_atom(a[1]), a[2])
        if a[0] == 'var':
            return str(a[1])
        if a[0] == 'len':
            return 'len(%s)' % show_atom(a[1])
        if a[0] in ('mstart', 'mend'):
            return '%s.%s(%s)' % (show_atom(a[1]), a[0][1:], ','.join(a[2]))
        if a[0] == 'item':
            return '%s[%s]' % (show_atom(a[1]), a[2])
        if a[0] == 'new':
            return '%s#%s' % (a[1], a[2])
        if a[0] in ('call', 'glob', 'const'):
            return show_atom(a[1]) if len(a) == 2 else str(a)
        if a[0] == 'ite':
            return 'ite#%x' % (hash(a) & 0xffff)
        return '%s(%s)' % (a[0], ','.join(show_atom(x) for x in a[1:]))
    return str(a)


class Unk:
    """polymorphic unknown with identity; coerced on use"""
    __slots__ = ('id',)

    def __init__(self, id_):
        self.id = id_

    def __repr__(self):
        return '?' + show_atom(self.id)


class SStr:
    """kind: base(id) | slice(base: SStr(base|otext), a: Lin, b: Lin|None, stripped) | concat(parts) |
             otext(obj) | group(m, g) | lit(value) | ite(a, b)"""

    def __init__(self, kind, **kw):
        self.kind = kind
        self.id = self.base = self.a = self.b = self.parts = self.obj = self.m = self.g = self.value = None
        self.stripped = False
        self.alts = None
        for k, v in kw.items():
            setattr(self, k, v)

    def key(self):
        k = self.kind
        if k == 'base':
            return ('base', repr(self.id))
        if k == 'slice':
            return ('slice', self.base.key(), self.a.key(), self.b.key() if self.b is not None else None, self.stripped)
        if k == 'concat':
            return ('concat',) + tuple(p.key() for p in self.parts)
        if k == 'otext':
            return ('otext', repr(self.obj))
        if k == 'group':
            return ('group', repr(self.m), self.g)
        if k == 'lit':
            return ('lit', self.value)
        if k == 'ite':
            return ('ite',) + tuple(p.key() for p in self.alts)
        if k == 'xform':
            return ('xform', self.value, self.base.key())
        return (k,)

    def __repr__(self):
        k = self.kind
        if k == 'base':
            return show_atom(self.id)
        if k == 'slice':
            return '%r[%r:%s]%s' % (self.base, self.a, '' if self.b is None else repr(self.b), '.strip()' if self.stripped else '')
        if k == 'concat':
            return ' + '.join(repr(p) for p in self.parts)
        if k == 'otext':
            return '%s.text' % show_atom(self.obj)
        if k == 'group':
            return '%s.group(%s)' % (show_atom(self.m), ','.join(self.g))
        if k == 'lit':
            return repr(self.value)
        if k == 'ite':
            return '(' + ' | '.join(repr(p) for p in self.alts) + ')'
        if k == 'xform':
            return '%r.%s(...)' % (self.base, self.value)
        return k


class ObjRef:
    __slots__ = ('id', 'cls')

    def __init__(self, id_, cls=None):
        self.id = id_
        self.cls = cls

    def __repr__(self):
        return '&' + show_atom(self.id)


class TupleVal:
    def __init__(self, items):
        self.items = items


_fresh = itertools.count(1)


def fresh(tag):
    return ('new', tag, next(_fresh))


def as_lin(v):
    if isinstance(v, Lin):
        return v
    if isinstance(v, Unk):
        return Lin.atom(v.id)
    if isinstance(v, ObjRef):
        return Lin.atom(v.id)
    if isinstance(v, SStr):
        return Lin.atom(('strnum', v.key()))
    return Lin.atom(fresh('num'))


def as_str(v):
    if isinstance(v, SStr):
        return v
    if isinstance(v, Unk):
        if isinstance(v.id, tuple) and v.id[0] == 'fld' and v.id[2] == 'text':
            return SStr('otext', obj=v.id[1])
        return SStr('base', id=v.id)
    if isinstance(v, ObjRef):
        return SStr('base', id=v.id)
    if isinstance(v, Lin):
        return SStr('base', id=('numstr', v.key()))
    return SStr('base', id=fresh('str'))


def as_obj(v):
    if isinstance(v, ObjRef):
        return v
    if isinstance(v, Unk):
        return ObjRef(v.id)
    if isinstance(v, SStr) and v.kind == 'base':
        return ObjRef(v.id)
    return ObjRef(fresh('obj'))


def slen(s, facts=None):
    """symbolic length of a string value as Lin, or None"""
    if s.kind == 'lit':
        return Lin(len(s.value))
    if s.kind == 'slice' and s.b is not None and not s.stripped:
        return s.b - s.a
    if s.kind == 'concat':
        tot = Lin(0)
        for p in s.parts:
            l = slen(p, facts)
            if l is None:
                return None
            tot = tot + l
        return tot
    if s.kind == 'group':
        return Lin.atom(('mend', s.m, s.g)) - Lin.atom(('mstart', s.m, s.g))
    if s.kind == 'base':
        if facts:
            f = facts.len_of_base(s.id)
            if f is not None:
                return f
        return Lin.atom(('len', s.id))
    if s.kind == 'otext':
        if facts and ('text', 'length') in facts.len_pairs:
            return Lin.atom(('fld', s.obj, 'length'))
        return Lin.atom(('len', ('fld', s.obj, 'text')))
    return None


def mk_slice(base, a, b, stripped=False):
    """normalise slice-of-slice to the root base"""
    if base.kind == 'slice' and not base.stripped:
        na = base.a + a
        nb = (base.a + b) if b is not None else base.b
        return mk_slice(base.base, na, nb, stripped)
    if base.kind == 'slice' and base.stripped:
        # offsets inside a stripped string are relative to an unknown amount of removed whitespace
        return SStr('base', id=('strip-slice', base.key(), a.key(), b.key() if b is not None else None))
    return SStr('slice', base=base, a=a, b=b, stripped=stripped)


# ------------------------------------------------------------------------------------------------ state

class State:
    def __init__(self):
        self.vars = {}
        self.heap = {}
        self.written = {}       # objid -> set(fields) written since last checkpoint
        self.fresh_objs = set()
        self.conds = []
        self.objcls = {}        # objid -> class name
        self.derived = {}       # objid of a call result -> object ids passed to that call
        self.derived_text = {}  # objid of a call result -> ((object id, its text when the call was made), ...)
        self.tri = {}           # local name -> subset of {'none', 'falsy', 'truthy'} it may be
        self.log = []           # path-ordered events recorded by rule hooks (e.g. constructed tokens)
        self.calls = {}         # objid of a call result -> (callee name, argument values)
        self.impl = []          # (antecedent tri key, consequent local name): antecedent truthy => name truthy

    def copy(self):
        s = State()
        s.vars = dict(self.vars)
        s.heap = dict(self.heap)
        s.written = {k: set(v) for k, v in self.written.items()}
        s.fresh_objs = set(self.fresh_objs)
        s.conds = list(self.conds)
        s.objcls = dict(self.objcls)
        s.derived = dict(self.derived)
        s.derived_text = dict(self.derived_text)
        s.tri = dict(self.tri)
        s.log = list(self.log)
        s.calls = dict(self.calls)
        s.impl = list(self.impl)
        return s


class Facts:
    """class knowledge handed to the walker: property expansions, constructor field maps, field-pair invariants"""

    def __init__(self):
        self.props = {}         # (clsname, prop) -> lambda getfield: Lin
        self.ctors = {}         # clsname -> list of (field, source) where source = ('arg', i, name) | ('const', value)
        self.len_pairs = set()  # (text_field, len_field): len(x.text_field) == x.len_field for any object x
        self.method_types = {}  # method name -> class name of result (or list element)
        self.base_len = {}
        self.conditional_match = False

    def len_of_base(self, bid):
        if isinstance(bid, tuple) and bid[0] == 'fld':
            for tf, lf in self.len_pairs:
                if bid[2] == tf:
                    return Lin.atom(('fld', bid[1], lf))
        return None


SPAN_FIELDS = ('start', 'length', 'text', 'end')
STRING_FIELDS = ('text', 'unit', 'value_str', 'resolution_str', 'timex_str', 'type')


def is_stringy(v):
    if isinstance(v, SStr):
        return True
    if isinstance(v, Unk) and isinstance(v.id, tuple) and v.id and v.id[0] == 'fld' and v.id[2] in STRING_FIELDS:
        return True
    return False
PURE_FUNCS = {'len', 'int', 'str', 'isinstance', 'min', 'max', 'sorted', 'list', 'filter', 'map', 'next', 'iter', 'any',
              'all', 'range', 'enumerate', 'bool', 'float', 'print', 'reversed', 'zip', 'sum', 'abs', 'type', 'getattr',
              'hasattr', 'repr', 'tuple', 'set', 'dict', 'round', 'ord', 'chr'}
PURE_METHODS = {'strip', 'lstrip', 'rstrip', 'lower', 'upper', 'startswith', 'endswith', 'index', 'find', 'rfind',
                'rindex', 'group', 'start', 'end', 'span', 'groups', 'groupdict', 'captures', 'search', 'match',
                'finditer', 'findall', 'fullmatch', 'split', 'join', 'replace', 'isspace', 'isdigit', 'format', 'get',
                'keys', 'values', 'items', 'count', 'copy', 'get_group', 'get_matches', 'is_exact_match', 'exact_match',
                'match_begin', 'match_end', 'get_safe_reg_exp', 'casefold', 'title', 'isalpha', 'isalnum', 'encode',
                'append', 'extend', 'insert', 'add', 'remove', 'pop', 'clear', 'sort', 'reverse', 'update', 'sub',
                'is_match', 'get_matches_simple', 'trim_start_whitespaces', 'index_of', 'has_token_index'}


class _DeadPath(Exception):
    """the path reads a local that is not bound on it (UnboundLocalError at run time): it ends there"""


class Walker:
    """on_check(kind, state, objid, node): called at escape points / path ends for objects with written span fields"""

    def __init__(self, fn, facts, on_check, clsname=None, max_paths=MAX_PATHS, focus=None, assume_none=()):
        self.fn = fn
        self.focus = focus      # root names whose span stores matter (None = all)
        self.assume_none = set(assume_none)   # scenario slicing: these locals hold None whenever assigned from a call
        self.facts = facts
        self.on_check = on_check
        self.clsname = clsname
        self.max_paths = max_paths
        self.npaths = 0
        self.overflow = False
        self.ann = {}
        self.R = self._relevant_names()
        self._relcache = {}
        self.local_names = {n.id for n in ast.walk(fn) if isinstance(n, ast.Name) and isinstance(n.ctx, ast.Store)}
        self._in_nested_scope = False
        self.local_names -= {n for g in ast.walk(fn) if isinstance(g, (ast.Global, ast.Nonlocal)) for n in g.names}

    # ---------------------------------------------------------------- relevance (path pruning only)
    def _relevant_names(self):
        R = set()
        ctor_names = set(self.facts.ctors)
        for n in ast.walk(self.fn):
            tgt = val = None
            if isinstance(n, ast.Assign):
                for t in n.targets:
                    if isinstance(t, ast.Attribute) and t.attr in SPAN_FIELDS \
                            and (self.focus is None or _rootname(t.value) in self.focus):
                        R |= _names(t.value) | _names(n.value)
            elif isinstance(n, ast.AugAssign) and isinstance(n.target, ast.Attribute) and n.target.attr in SPAN_FIELDS \
                    and (self.focus is None or _rootname(n.target.value) in self.focus):
                R |= _names(n.target.value) | _names(n.value)
            elif isinstance(n, ast.Call):
                fn_ = n.func.id if isinstance(n.func, ast.Name) else n.func.attr if isinstance(n.func, ast.Attribute) else None
                if fn_ in ctor_names:
                    for a in n.args:
                        R |= _names(a)
                    for k in n.keywords:
                        R |= _names(k.value)
        changed = True
        while changed:
            changed = False
            for n in ast.walk(self.fn):
                new = set()
                if isinstance(n, ast.Assign):
                    if any(_names(t) & R for t in n.targets if isinstance(t, (ast.Name, ast.Tuple, ast.List))):
                        new = _names(n.value)
                elif isinstance(n, ast.AnnAssign) and n.value is not None and isinstance(n.target, ast.Name) and n.target.id in R:
                    new = _names(n.value)
                elif isinstance(n, ast.AugAssign) and isinstance(n.target, ast.Name) and n.target.id in R:
                    new = _names(n.value)
                elif isinstance(n, ast.For) and (_names(n.target) & R):
                    new = _names(n.iter)
                if new - R:
                    R |= new
                    changed = True
        R.discard('self')
        return R

    def relevant(self, node):
        k = id(node)
        if k in self._relcache:
            return self._relcache[k]
        r = False
        for n in ast.walk(node):
            if n is node:
                continue
            if isinstance(n, (ast.Return, ast.Raise, ast.Continue, ast.Break)):
                r = True
            elif isinstance(n, ast.Attribute) and isinstance(n.ctx, ast.Store) and n.attr in SPAN_FIELDS \
                    and not (isinstance(n.value, ast.Name) and n.value.id == 'self') \
                    and (self.focus is None or _rootname(n.value) in self.focus):
                r = True
            elif isinstance(n, ast.Name) and isinstance(n.ctx, ast.Store) and n.id in self.R:
                r = True
            elif isinstance(n, ast.Call):
                fn_ = n.func.id if isinstance(n.func, ast.Name) else n.func.attr if isinstance(n.func, ast.Attribute) else None
                if fn_ in self.facts.ctors:
                    r = True
                elif not ((isinstance(n.func, ast.Name) and fn_ in PURE_FUNCS) or (isinstance(n.func, ast.Attribute) and fn_ in PURE_METHODS and fn_ not in ('append', 'insert', 'extend', 'add'))):
                    if any(isinstance(a, ast.Name) and a.id in self.R for a in n.args):
                        r = True
            if r:
                break
        self._relcache[k] = r
        return r

    def skip(self, st, node):
        """an irrelevant region: only havoc what it assigns (only the feasible branch of a decided `if`)"""
        if isinstance(node, ast.If):
            fa = self.refine(st.copy(), node.test, True)
            fb = self.refine(st.copy(), node.test, False)
            if fa != fb:
                for sub in (node.body if fa else node.orelse):
                    self.skip(st, sub)
                return [(st, 'fall', None)]
        if isinstance(node, ast.Assign) and len(node.targets) == 1 and isinstance(node.targets[0], ast.Name) \
                and isinstance(node.value, ast.Constant):
            # an unconditional `flag = <constant>` of the executed branch is tracked exactly
            self.assign(st, node.targets[0], self.ev(st, node.value), node)
            return [(st, 'fall', None)]
        for n in ast.walk(node):
            if isinstance(n, ast.Name) and isinstance(n.ctx, ast.Store):
                st.vars[n.id] = Unk(fresh('skip.' + n.id))
                st.tri.pop(n.id, None)
                for k in [k for k in st.tri if k.startswith('(') and _mentions(k, n.id) or k.startswith(n.id + '.')]:
                    del st.tri[k]
            elif isinstance(n, ast.Attribute) and isinstance(n.ctx, ast.Store):
                rn = _rootname(n.value)
                if rn in st.vars and isinstance(st.vars[rn], (ObjRef, Unk)) and isinstance(n.value, ast.Name):
                    st.heap[(as_obj(st.vars[rn]).id, n.attr)] = Unk(fresh('skip.%s' % n.attr))
                else:
                    for k in list(st.heap):
                        if k[1] == n.attr and k[0] not in st.fresh_objs:
                            st.heap[k] = Unk(fresh('skip.%s' % n.attr))
        return [(st, 'fall', None)]

    # ---------------------------------------------------------------- entry
    def run(self):
        st = State()
        args = self.fn.args
        for a in list(args.posonlyargs) + list(args.args) + list(args.kwonlyargs):
            st.vars[a.arg] = Unk(('var', a.arg))
            c = ann_class(a.annotation)
            if c:
                st.objcls[('var', a.arg)] = c
        outs = self.block(self.fn.body, st)
        for s, status, node in outs:
            self.checkpoint_all(s, node or self.fn, 'exit')
        return self

    # ---------------------------------------------------------------- checks
    def checkpoint_all(self, st, node, why):
        for oid in list(st.written):
            self.checkpoint(st, oid, node, why)

    def checkpoint(self, st, oid, node, why):
        flds = st.written.pop(oid, None)
        if flds and (flds & set(SPAN_FIELDS)):
            self.on_check(self, st, oid, flds, node, why)

    # ---------------------------------------------------------------- heap
    def field(self, st, oid, attr):
        v = st.heap.get((oid, attr))
        if v is not None:
            return v
        cls = st.objcls.get(oid)
        if cls == 'ConditionalMatch' and self.facts.conditional_match:
            # ConditionalMatch.length is len(group()) (verified on the class by the rule that enables this fact)
            if attr == 'length':
                return Lin.atom(('mend', oid, ())) - Lin.atom(('mstart', oid, ()))
            if attr == 'index':
                fn_, av = st.calls.get(oid, (None, ()))
                # a successful match_begin(pattern, <entity>.text, trim) starts the entity text: the code itself relies on
                # it (it advances start by the match length alone); recorded as an assumption of the rule
                if fn_ == 'match_begin' and len(av) >= 2 and isinstance(av[1], (SStr, Unk)) and as_str(av[1]).kind == 'otext':
                    return Lin(0)
        if cls and (cls, attr) in self.facts.props:
            return self.facts.props[(cls, attr)](lambda f: as_lin(self.field(st, oid, f)))
        v = Unk(('fld', oid, attr))
        return v

    def set_field(self, st, oid, attr, val):
        # a store to field `attr` of one object may alias the same field of every object not known distinct
        for (o2, a2) in list(st.heap):
            if a2 == attr and o2 != oid and not (o2 in st.fresh_objs or oid in st.fresh_objs):
                st.heap[(o2, a2)] = Unk(fresh('alias.%s' % attr))
        st.heap[(oid, attr)] = val
        st.written.setdefault(oid, set()).add(attr)

    def havoc_obj(self, st, oid, node):
        self.checkpoint(st, oid, node, 'escape')
        for (o2, a2) in list(st.heap):
            if o2 == oid:
                st.heap[(o2, a2)] = Unk(fresh('havoc.%s' % a2))

    # ---------------------------------------------------------------- expressions
    def ev(self, st, e):
        if e is None:
            return Unk(fresh('none'))
        if isinstance(e, ast.Constant):
            if isinstance(e.value, bool) or e.value is None:
                return Unk(('const', repr(e.value)))
            if isinstance(e.value, int):
                return Lin(e.value)
            if isinstance(e.value, str):
                return SStr('lit', value=e.value)
            return Unk(('const', repr(e.value)))
        if isinstance(e, ast.Name):
            if e.id in st.vars:
                return st.vars[e.id]
            if e.id in self.local_names and not self._in_nested_scope:
                raise _DeadPath(e.id)
            return Unk(('glob', e.id))
        if isinstance(e, ast.Attribute):
            base = self.ev(st, e.value)
            if isinstance(base, SStr) and base.kind != 'base':
                return Unk(fresh('strattr'))
            if isinstance(base, TupleVal):
                return Unk(fresh('tupattr'))
            o = as_obj(base)
            return self.field(st, o.id, e.attr)
        if isinstance(e, ast.UnaryOp):
            if isinstance(e.op, ast.USub):
                return -as_lin(self.ev(st, e.operand))
            self.ev(st, e.operand)
            return Unk(fresh('unary'))
        if isinstance(e, ast.BinOp):
            l = self.ev(st, e.left)
            r = self.ev(st, e.right)
            if isinstance(e.op, ast.Add):
                if is_stringy(l) or is_stringy(r):
                    ls, rs = as_str(l), as_str(r)
                    parts = (ls.parts if ls.kind == 'concat' else [ls]) + (rs.parts if rs.kind == 'concat' else [rs])
                    return SStr('concat', parts=parts)
                return as_lin(l) + as_lin(r)
            if isinstance(e.op, ast.Sub):
                return as_lin(l) - as_lin(r)
            if isinstance(e.op, ast.Mult):
                a, b = as_lin(l), as_lin(r)
                if a.is_const():
                    return b.scale(a.c)
                if b.is_const():
                    return a.scale(b.c)
                return Lin.atom(('mul', a.key(), b.key()))
            return Lin.atom(('binop', type(e.op).__name__, repr(l), repr(r)))
        if isinstance(e, ast.BoolOp):
            vals = [self.ev(st, v) for v in e.values]
            # `x or 0` / `x or ''` : x for offsets
            if isinstance(e.op, ast.Or) and len(vals) == 2 and isinstance(vals[1], Lin) and vals[1].is_const() and vals[1].c == 0:
                return vals[0]
            return Unk(fresh('boolop'))
        if isinstance(e, ast.IfExp):
            self.ev(st, e.test)
            t_ = e.test
            neg = False
            if isinstance(t_, ast.UnaryOp) and isinstance(t_.op, ast.Not):
                t_, neg = t_.operand, True
            if isinstance(t_, ast.Name) and t_.id in st.tri:
                tv = st.tri[t_.id]
                if tv == frozenset(['truthy']):
                    return self.ev(st, e.orelse if neg else e.body)
                if 'truthy' not in tv:
                    return self.ev(st, e.body if neg else e.orelse)
            a = self.ev(st, e.body)
            b = self.ev(st, e.orelse)
            # `x if x else 0`
            if isinstance(b, Lin) and b.is_const() and b.c == 0 and ast.dump(e.test) == ast.dump(e.body):
                return a
            if isinstance(a, SStr) or isinstance(b, SStr):
                sa_, sb = as_str(a), as_str(b)
                if sa_.key() == sb.key():
                    return sa_
                return SStr('ite', alts=[sa_, sb])
            if isinstance(a, (Lin, Unk)) and isinstance(b, (Lin, Unk)):
                la, lb = as_lin(a), as_lin(b)
                if la == lb:
                    return la
                return Lin.atom(('ite', la.key(), lb.key()))
            return Unk(fresh('ite'))
        if isinstance(e, ast.Subscript):
            base = self.ev(st, e.value)
            if isinstance(e.slice, ast.Slice):
                if e.slice.step is not None:
                    return Unk(fresh('stepslice'))
                bs = as_str(base)
                a = as_lin(self.ev(st, e.slice.lower)) if e.slice.lower is not None else Lin(0)
                b = as_lin(self.ev(st, e.slice.upper)) if e.slice.upper is not None else None
                if bs.kind == 'ite':
                    return SStr('ite', alts=[mk_slice(x, a, b) for x in bs.alts])
                if bs.kind not in ('base', 'otext', 'slice'):
                    return SStr('base', id=fresh('slice-of-' + bs.kind))
                return mk_slice(bs, a, b)
            idx = self.ev(st, e.slice)
            if isinstance(base, TupleVal) and isinstance(idx, Lin) and idx.is_const() and 0 <= idx.c < len(base.items):
                return base.items[idx.c]
            ik = as_lin(idx).key() if isinstance(idx, (Lin, Unk)) else (idx.key() if isinstance(idx, SStr) else repr(idx))
            bid = as_obj(base).id if not isinstance(base, (SStr, Lin, TupleVal)) else ('val', repr(base))
            item = Unk(('item', bid, ik))
            bc = st.objcls.get(bid)
            if bc and bc.startswith('List['):
                st.objcls[item.id] = bc[5:-1]
            return item
        if isinstance(e, ast.Call):
            return self.call(st, e)
        if isinstance(e, ast.Tuple):
            return TupleVal([self.ev(st, x) for x in e.elts])
        if isinstance(e, (ast.List, ast.Set)):
            for x in e.elts:
                v = self.ev(st, x)
                if isinstance(v, (ObjRef, Unk)):
                    self.escape(st, v, e)
            return Unk(fresh('list'))
        if isinstance(e, ast.Compare):
            self.ev(st, e.left)
            for c in e.comparators:
                self.ev(st, c)
            return Unk(fresh('cmp'))
        if isinstance(e, (ast.ListComp, ast.GeneratorExp, ast.SetComp, ast.DictComp, ast.Lambda)):
            return Unk(fresh('comp'))
        if isinstance(e, ast.JoinedStr):
            return SStr('base', id=fresh('fstr'))
        if isinstance(e, ast.Dict):
            return Unk(fresh('dict'))
        if isinstance(e, ast.Starred):
            return self.ev(st, e.value)
        if isinstance(e, (ast.Yield, ast.YieldFrom, ast.Await)):
            v = self.ev(st, e.value) if e.value is not None else Unk(fresh('yield'))
            if isinstance(v, (ObjRef, Unk)):
                self.checkpoint(st, as_obj(v).id, e, 'yield')
            return Unk(fresh('yielded'))
        return Unk(fresh(type(e).__name__))

    def escape(self, st, v, node):
        o = as_obj(v)
        if o.id in st.written or any(k[0] == o.id for k in st.heap):
            self.havoc_obj(st, o.id, node)

    def call(self, st, e):
        f = e.func
        fname = f.id if isinstance(f, ast.Name) else f.attr if isinstance(f, ast.Attribute) else None
        argv = [self.ev(st, a) for a in e.args]
        kwv = {k.arg: self.ev(st, k.value) for k in e.keywords}
        # builtins with algebra
        if isinstance(f, ast.Name):
            if fname == 'len' and len(argv) == 1:
                v = argv[0]
                if isinstance(v, (SStr, Unk)):
                    l = slen(as_str(v), self.facts)
                    if l is not None:
                        return l
                return Lin.atom(('len', repr(v)))
            if fname == 'int' and len(argv) == 1:
                return as_lin(argv[0])
            if fname == 'str' and len(argv) == 1:
                return as_str(argv[0])
            if fname in ('deepcopy', 'copy') and len(argv) == 1:
                return self.copy_obj(st, argv[0])
            if fname in self.facts.ctors:
                return self.construct(st, fname, argv, kwv, e)
        if isinstance(f, ast.Attribute):
            if isinstance(f.value, ast.Name) and f.value.id == 'str' and argv and fname in ('lower', 'upper', 'casefold', 'strip',
                                                                                          'lstrip', 'rstrip'):
                # str.lower(x) is x.lower()
                recv0 = argv[0]
                if isinstance(recv0, (SStr, Unk)):
                    s0 = as_str(recv0)
                    if fname in ('strip', 'lstrip', 'rstrip') and len(argv) == 1:
                        return self.strip(s0)
                    if fname in ('lower', 'upper', 'casefold') and len(argv) == 1:
                        return s0
            recv = self.ev(st, f.value)
            if fname in ('deepcopy', 'copy') and len(argv) == 1 and isinstance(f.value, ast.Name) and f.value.id == 'copy':
                return self.copy_obj(st, argv[0])
            if fname in self.facts.ctors and not isinstance(recv, SStr):
                return self.construct(st, fname, argv, kwv, e)
            if isinstance(recv, SStr) or (isinstance(recv, Unk) and fname in ('strip', 'lstrip', 'rstrip', 'lower', 'upper')):
                s = as_str(recv)
                if fname in ('strip', 'lstrip', 'rstrip') and not argv:
                    return self.strip(s)
                if fname in ('strip', 'lstrip', 'rstrip') and len(e.args) == 1:
                    a0 = e.args[0]
                    if isinstance(a0, ast.Constant) and isinstance(a0.value, str) and a0.value and not a0.value.strip():
                        return self.strip(s)            # strip(' \t'): whitespace only, same as strip()
                    if isinstance(a0, ast.Constant) and isinstance(a0.value, str) and a0.value \
                            and s.kind in ('slice', 'otext', 'group', 'concat', 'xform'):
                        # trimming non-blank characters changes what the text says: not the slice [start, start+length) any more
                        return SStr('xform', base=s, value='%s(%r)' % (fname, a0.value))
                if fname in ('lower', 'upper', 'casefold') and not argv:
                    return s
                if fname in ('index', 'find', 'rfind', 'rindex') and argv:
                    return Lin.atom(('index', s.key(), repr(argv[0])))
                if fname in ('replace', 'title', 'capitalize', 'swapcase', 'translate', 'expandtabs', 'zfill',
                             'center', 'ljust', 'rjust', 'format', 'join', 'removeprefix', 'removesuffix') \
                        and s.kind in ('slice', 'otext', 'group', 'concat', 'xform'):
                    return SStr('xform', base=s, value=fname)
                if fname in ('startswith', 'endswith', 'isspace', 'isdigit'):
                    return Unk(fresh('bool'))
            if fname in ('start', 'end') and not isinstance(recv, (SStr, Lin)):
                m = as_obj(recv).id
                g = tuple(ast.unparse(a) for a in e.args)
                return Lin.atom(('mstart' if fname == 'start' else 'mend', m, g))
            if fname == 'group' and not isinstance(recv, (SStr, Lin)):
                m = as_obj(recv).id
                return SStr('group', m=m, g=tuple(ast.unparse(a) for a in e.args))
            if fname == 'span' and not isinstance(recv, (SStr, Lin)):
                m = as_obj(recv).id
                g = tuple(ast.unparse(a) for a in e.args)
                return TupleVal([Lin.atom(('mstart', m, g)), Lin.atom(('mend', m, g))])
        # generic call: object arguments escape unless the callee is known not to mutate them
        snap = []
        snap_text = []
        for v in list(argv) + list(kwv.values()):
            if isinstance(v, (ObjRef, Unk)):
                o_ = as_obj(v).id
                snap.append((o_, as_lin(self.field(st, o_, 'start')), as_lin(self.field(st, o_, 'length'))))
                snap_text.append((o_, self.field(st, o_, 'text')))
        pure = (isinstance(f, ast.Name) and fname in PURE_FUNCS) or (isinstance(f, ast.Attribute) and fname in PURE_METHODS)
        if fname in ('append', 'insert', 'extend', 'add'):
            for v in argv:
                if isinstance(v, (ObjRef, Unk)):
                    o = as_obj(v)
                    self.checkpoint(st, o.id, e, 'append')
        elif not pure:
            for v in list(argv) + list(kwv.values()):
                if isinstance(v, (ObjRef, Unk)):
                    self.escape(st, v, e)
        res = Unk(('call', fresh(fname or 'call')))
        if snap:
            st.derived[res.id] = tuple(snap)
            st.derived_text[res.id] = tuple(snap_text)
        st.calls[res.id] = (fname, tuple(argv))
        t = self.facts.method_types.get(fname)
        if t:
            st.objcls[res.id] = t
        return res

    def strip(self, s):
        if s.kind == 'slice':
            return SStr('slice', base=s.base, a=s.a, b=s.b, stripped=True)
        if s.kind == 'ite':
            return SStr('ite', alts=[self.strip(x) for x in s.alts])
        if s.kind == 'otext':
            return s          # text of an entity is compared modulo outer whitespace
        return SStr('base', id=('strip', s.key()))

    on_construct = None

    def construct(self, st, cname, argv, kwv, node):
        if self.on_construct is not None:
            self.on_construct(self, st, cname, argv, kwv, node)
        oid = fresh(cname)
        st.fresh_objs.add(oid)
        st.objcls[oid] = cname
        for fld, src in self.facts.ctors[cname]:
            if src[0] == 'const':
                st.heap[(oid, fld)] = src[1]
            elif src[0] == 'arg':
                i, name = src[1], src[2]
                if i < len(argv):
                    st.heap[(oid, fld)] = argv[i]
                elif name in kwv:
                    st.heap[(oid, fld)] = kwv[name]
                elif len(src) > 3:
                    st.heap[(oid, fld)] = src[3]
            elif src[0] == 'copyarg':
                i, name, f2 = src[1], src[2], src[3]
                v = argv[i] if i < len(argv) else kwv.get(name)
                if v is not None and isinstance(v, (ObjRef, Unk)):
                    st.heap[(oid, fld)] = self.field(st, as_obj(v).id, f2)
                elif len(src) > 4:
                    st.heap[(oid, fld)] = src[4]
        return ObjRef(oid, cname)

    def copy_obj(self, st, v):
        src = as_obj(v)
        oid = fresh('copy')
        st.fresh_objs.add(oid)
        if src.id in st.objcls:
            st.objcls[oid] = st.objcls[src.id]
        for f in ('start', 'length', 'text'):
            st.heap[(oid, f)] = self.field(st, src.id, f)
        return ObjRef(oid)

    # ---------------------------------------------------------------- statements
    def block(self, stmts, st):
        """returns list of (state, status, node) ; status in fall|return|break|continue"""
        live = [st]
        done = []
        for s in stmts:
            nxt = []
            for cur in live:
                try:
                    outs_ = self.stmt(s, cur)
                except _DeadPath:
                    continue
                for (s2, status, node) in outs_:
                    if status == 'fall':
                        nxt.append(s2)
                    else:
                        done.append((s2, status, node))
            live = self.dedupe(nxt)
            if not live:
                break
        return [(s, 'fall', None) for s in live] + done

    def dedupe(self, states):
        if len(states) <= 1:
            return states
        seen = {}
        for s in states:
            k = (tuple(sorted((n, vkey(v)) for n, v in s.vars.items())),
                 tuple(sorted((repr(h), vkey(v)) for h, v in s.heap.items())),
                 tuple(sorted((repr(o), tuple(sorted(f))) for o, f in s.written.items())),
                 tuple(sorted((n, tuple(sorted(v))) for n, v in s.tri.items())))
            seen.setdefault(k, s)
        out = list(seen.values())
        if len(out) > self.max_paths:
            self.overflow = True
            out = out[:self.max_paths]
        return out

    def assign(self, st, tgt, val, node):
        rn = _rootname(tgt)
        if rn is not None:
            tgt_text = ast.unparse(_load(tgt))
            for k in list(st.tri):
                if k.startswith('('):
                    if _mentions(k, rn if isinstance(tgt, ast.Name) else tgt_text):
                        del st.tri[k]
                elif k.startswith(rn + '.') and (isinstance(tgt, ast.Name) or k == tgt_text):
                    del st.tri[k]
        if isinstance(tgt, ast.Name):
            srcv = getattr(node, 'value', None)
            monotone = isinstance(node, ast.Assign) and isinstance(srcv, ast.BoolOp) and isinstance(srcv.op, ast.Or) \
                and any(isinstance(v, ast.Name) and v.id == tgt.id for v in srcv.values)
            # `flag = flag or E` only ever raises the flag: what implied it before still implies it
            st.impl = [(a, c) for a, c in st.impl if (c != tgt.id or monotone) and not _mentions('(' + a + ')', tgt.id)]
            keep_tri = None
            if isinstance(node, ast.Assign) and isinstance(srcv, ast.BoolOp) and isinstance(srcv.op, ast.Or) \
                    and any(isinstance(v, ast.Name) and v.id == tgt.id for v in srcv.values):
                # flag = flag or E: E truthy implies the flag; a flag already known truthy stays truthy
                for v in srcv.values:
                    if isinstance(v, ast.Attribute) and _plain_chain(v):
                        st.impl.append((ast.unparse(v), tgt.id))
                    elif isinstance(v, ast.Name) and v.id != tgt.id:
                        st.impl.append((v.id, tgt.id))
                if st.tri.get(tgt.id) == frozenset(['truthy']):
                    keep_tri = st.tri[tgt.id]
            st.vars[tgt.id] = val
            st.tri.pop(tgt.id, None)
            if keep_tri is not None:
                st.tri[tgt.id] = keep_tri
            src = getattr(node, 'value', None)
            if isinstance(node, (ast.Assign, ast.AnnAssign)) and isinstance(src, ast.Constant):
                if src.value is None:
                    st.tri[tgt.id] = frozenset(['none'])
                elif src.value is True or (isinstance(src.value, (int, str)) and not isinstance(src.value, bool) and src.value):
                    st.tri[tgt.id] = frozenset(['truthy'])
                elif src.value is False or src.value == 0 or src.value == '':
                    st.tri[tgt.id] = frozenset(['falsy'])
            elif isinstance(node, (ast.Assign, ast.AnnAssign)) and isinstance(src, ast.Call) and isinstance(src.func, ast.Name) \
                    and src.func.id in self.facts.ctors:
                st.tri[tgt.id] = frozenset(['truthy'])
            elif tgt.id in self.assume_none and isinstance(node, (ast.Assign, ast.AnnAssign)) and isinstance(src, ast.Call):
                st.tri[tgt.id] = frozenset(['none'])
            elif isinstance(node, (ast.Assign, ast.AnnAssign)) and self._flag_test(src) is not None:
                # flag = bool(<test>) / flag = <a and b> / flag = not <test>: decided where the test is decided on this path
                t_ = self._flag_test(src)
                ft = self.refine(st.copy(), t_, True)
                ff = self.refine(st.copy(), t_, False)
                if ft != ff:
                    st.tri[tgt.id] = frozenset(['truthy']) if ft else frozenset(['falsy'])
            elif isinstance(node, (ast.Assign, ast.AnnAssign)) and isinstance(src, ast.Compare) and len(src.ops) == 1 \
                    and isinstance(src.left, ast.Name) and isinstance(src.comparators[0], ast.Constant) \
                    and src.comparators[0].value is None and isinstance(src.ops[0], (ast.Is, ast.IsNot)):
                # flag = X is None / X is not None: decided where X's none-ness is known on this path
                xt = st.tri.get(src.left.id)
                if xt is not None:
                    isnone = xt == frozenset(['none'])
                    notnone = 'none' not in xt
                    if isnone or notnone:
                        val_true = isnone if isinstance(src.ops[0], ast.Is) else notnone
                        st.tri[tgt.id] = frozenset(['truthy']) if val_true else frozenset(['falsy'])
        elif isinstance(tgt, ast.Attribute):
            base = self.ev(st, tgt.value)
            if isinstance(base, (SStr, Lin, TupleVal)):
                return
            o = as_obj(base)
            if isinstance(tgt.value, ast.Name) and tgt.value.id == 'self':
                st.heap[(o.id, tgt.attr)] = val
                return
            self.set_field(st, o.id, tgt.attr, val)
        elif isinstance(tgt, (ast.Tuple, ast.List)):
            srcv = getattr(node, 'value', None)
            pairwise = isinstance(node, ast.Assign) and isinstance(srcv, (ast.Tuple, ast.List)) and len(srcv.elts) == len(tgt.elts) \
                and not any(isinstance(x, ast.Starred) for x in list(srcv.elts) + list(tgt.elts))
            for i, el in enumerate(tgt.elts):
                if isinstance(val, TupleVal) and i < len(val.items):
                    # `a, b = None, x`: each element is bound like a single assignment from its own source expression
                    self.assign(st, el, val.items[i],
                                ast.copy_location(ast.Assign(targets=[el], value=srcv.elts[i]), node) if pairwise else node)
                else:
                    self.assign(st, el, Unk(fresh('unpack')), node)
        elif isinstance(tgt, ast.Subscript):
            self.ev(st, tgt.value)
            self.ev(st, tgt.slice) if not isinstance(tgt.slice, ast.Slice) else None
            if isinstance(val, (ObjRef, Unk)):
                o = as_obj(val)
                self.checkpoint(st, o.id, node, 'store')
        elif isinstance(tgt, ast.Starred):
            self.assign(st, tgt.value, Unk(fresh('star')), node)

    @staticmethod
    def _flag_test(src):
        """the call-free test a flag is bound to: bool(T), `a and b` / `a or b`, `not T`"""
        t = None
        if isinstance(src, ast.Call) and isinstance(src.func, ast.Name) and src.func.id == 'bool' and len(src.args) == 1 \
                and not src.keywords:
            t = src.args[0]
        elif isinstance(src, ast.BoolOp) or (isinstance(src, ast.UnaryOp) and isinstance(src.op, ast.Not)):
            t = src
        if t is None or not _call_free(t):
            return None
        if isinstance(src, ast.BoolOp) and any(isinstance(v, ast.Name) for v in src.values) and isinstance(src.op, ast.Or):
            return None         # `flag = flag or E` has its own treatment above
        return t

    def stmt(self, s, st):
        if isinstance(s, (ast.Assign, ast.AugAssign, ast.AnnAssign, ast.Expr, ast.Return)):
            # correlated conditional expressions `a if flag else b` on one flag: fork on the flag once
            for n in ast.walk(s):
                if isinstance(n, ast.IfExp):
                    t = n.test
                    if isinstance(t, ast.UnaryOp) and isinstance(t.op, ast.Not):
                        t = t.operand
                    if isinstance(t, ast.Name) and t.id in st.vars and st.tri.get(t.id, self.ALL3) - {'truthy'} \
                            and 'truthy' in st.tri.get(t.id, self.ALL3):
                        a = st.copy()
                        b = st
                        a.tri[t.id] = frozenset(['truthy'])
                        b.tri[t.id] = st.tri.get(t.id, self.ALL3) - {'truthy'}
                        return self.stmt(s, a) + self.stmt(s, b)
        if isinstance(s, ast.Assign):
            v = self.ev(st, s.value)
            for t in s.targets:
                self.assign(st, t, v, s)
            return [(st, 'fall', None)]
        if isinstance(s, ast.AnnAssign):
            if s.value is not None:
                v = self.ev(st, s.value)
                self.assign(st, s.target, v, s)
                c = ann_class(s.annotation)
                if c and isinstance(v, (Unk, ObjRef)):
                    st.objcls[as_obj(v).id] = c
            return [(st, 'fall', None)]
        if isinstance(s, ast.AugAssign):
            cur = self.ev(st, _load(s.target))
            rhs = self.ev(st, s.value)
            if isinstance(s.op, ast.Add):
                if is_stringy(cur) or is_stringy(rhs):
                    ls, rs = as_str(cur), as_str(rhs)
                    v = SStr('concat', parts=(ls.parts if ls.kind == 'concat' else [ls]) + (rs.parts if rs.kind == 'concat' else [rs]))
                else:
                    v = as_lin(cur) + as_lin(rhs)
            elif isinstance(s.op, ast.Sub):
                v = as_lin(cur) - as_lin(rhs)
            else:
                v = Unk(fresh('aug'))
            self.assign(st, s.target, v, s)
            return [(st, 'fall', None)]
        if isinstance(s, ast.Expr):
            self.ev(st, s.value)
            return [(st, 'fall', None)]
        if isinstance(s, ast.Return):
            if s.value is not None:
                v = self.ev(st, s.value)
            return [(st, 'return', s)]
        if isinstance(s, ast.Raise):
            st.written.clear()
            return [(st, 'return', s)]
        if isinstance(s, ast.Break):
            return [(st, 'break', s)]
        if isinstance(s, ast.Continue):
            return [(st, 'continue', s)]
        if isinstance(s, (ast.If, ast.For, ast.While, ast.Try, ast.With)) and not self.relevant(s):
            return self.skip(st, s)
        if isinstance(s, ast.If):
            self.ev(st, s.test)
            a = st.copy()
            a.conds.append(_short(s.test))
            b = st
            b.conds.append('not ' + _short(s.test))
            fa = self.refine(a, s.test, True)
            fb = self.refine(b, s.test, False)
            outs = (self.block(s.body, a) if fa else []) + (self.block(s.orelse, b) if fb else [])
            falls = self.dedupe([o[0] for o in outs if o[1] == 'fall'])
            return [(x, 'fall', None) for x in falls] + [o for o in outs if o[1] != 'fall']
        if isinstance(s, (ast.For, ast.While)):
            return self.loop(s, st)
        if isinstance(s, ast.Try):
            outs = self.block(s.body, st.copy())
            res = []
            for (x, status, node) in outs:
                res.append((x, status, node))
            # handlers: state havoc'd over the try body
            if s.handlers:
                h0 = st.copy()
                self.havoc_assigned(h0, s.body)
                for h in s.handlers:
                    res += self.block(h.body, h0.copy())
            if s.orelse or s.finalbody:
                out2 = []
                for (x, status, node) in res:
                    if status == 'fall':
                        out2 += self.block(list(s.orelse) + list(s.finalbody), x)
                    else:
                        out2.append((x, status, node))
                res = out2
            return res
        if isinstance(s, ast.With):
            for it in s.items:
                v = self.ev(st, it.context_expr)
                if it.optional_vars is not None:
                    self.assign(st, it.optional_vars, Unk(fresh('with')), s)
            return self.block(s.body, st)
        if isinstance(s, (ast.FunctionDef, ast.ClassDef, ast.Pass, ast.Import, ast.ImportFrom, ast.Global, ast.Nonlocal,
                          ast.Assert, ast.Delete)):
            return [(st, 'fall', None)]
        return [(st, 'fall', None)]

    ALL3 = frozenset(['none', 'falsy', 'truthy'])

    def refine(self, st, test, truth):
        """narrow the three-valued facts of local names under `test == truth`; False if infeasible"""
        if isinstance(test, ast.UnaryOp) and isinstance(test.op, ast.Not):
            return self.refine(st, test.operand, not truth)
        if isinstance(test, (ast.BoolOp, ast.Compare)) and _call_free(test):
            # the same compound condition tested twice on one path has one truth value
            key = '(' + ast.unparse(test) + ')'
            cur = st.tri.get(key)
            want = frozenset(['truthy']) if truth else frozenset(['none', 'falsy'])
            if cur is not None and not (cur & want):
                return False
            st.tri[key] = want
        if isinstance(test, ast.BoolOp):
            conj = isinstance(test.op, ast.And)
            if conj == truth:
                # all operands have value `truth`
                for v in test.values:
                    if not self.refine(st, v, truth):
                        return False
                return True
            # at least one operand has value `truth`: feasible unless every operand is decided otherwise
            feas = False
            for v in test.values:
                if self.refine(st.copy(), v, truth):
                    feas = True
            return feas
        name = None
        allowed = None
        if isinstance(test, ast.Attribute) and _plain_chain(test):
            key = ast.unparse(test)
            cur = st.tri.get(key, self.ALL3)
            new = cur & (frozenset(['truthy']) if truth else frozenset(['none', 'falsy']))
            if not new:
                return False
            st.tri[key] = new
            return self._propagate(st, key)
        if isinstance(test, ast.Name):
            name = test.id
            allowed = frozenset(['truthy']) if truth else frozenset(['none', 'falsy'])
        elif isinstance(test, ast.Compare) and len(test.ops) == 1 and isinstance(test.left, ast.Name) \
                and isinstance(test.comparators[0], ast.Constant) and test.comparators[0].value is None \
                and isinstance(test.ops[0], (ast.Is, ast.IsNot, ast.Eq, ast.NotEq)):
            name = test.left.id
            isnone = isinstance(test.ops[0], (ast.Is, ast.Eq)) == truth
            allowed = frozenset(['none']) if isnone else frozenset(['falsy', 'truthy'])
        if name is None or name not in st.vars and name not in st.tri:
            return True
        cur = st.tri.get(name, self.ALL3)
        new = cur & allowed
        if not new:
            return False
        st.tri[name] = new
        return self._propagate(st, name)

    def _propagate(self, st, key):
        """implications recorded for `flag = flag or E`"""
        val = st.tri.get(key)
        if val == frozenset(['truthy']):
            for a, c in st.impl:
                if a == key:
                    cur = st.tri.get(c, self.ALL3)
                    if 'truthy' not in cur:
                        return False
                    st.tri[c] = frozenset(['truthy'])
        elif val is not None and 'truthy' not in val:
            for a, c in st.impl:
                if c == key:
                    cur = st.tri.get(a, self.ALL3)
                    new = cur - {'truthy'}
                    if not new:
                        return False
                    st.tri[a] = new
        return True

    def havoc_assigned(self, st, stmts):
        names, fields, callobjs = set(), set(), set()
        fresh_in_loop = set()
        for s in stmts:
            for n in ast.walk(s):
                if isinstance(n, ast.Assign) and len(n.targets) == 1 and isinstance(n.targets[0], ast.Name) \
                        and isinstance(n.value, ast.Call):
                    fn_ = n.value.func.id if isinstance(n.value.func, ast.Name) else \
                        n.value.func.attr if isinstance(n.value.func, ast.Attribute) else None
                    if fn_ in self.facts.ctors:
                        fresh_in_loop.add(n.targets[0].id)
        multi = set()
        for s in stmts:
            for n in ast.walk(s):
                if isinstance(n, ast.Name) and isinstance(n.ctx, ast.Store):
                    names.add(n.id)
                elif isinstance(n, ast.Attribute) and isinstance(n.ctx, ast.Store):
                    if isinstance(n.value, ast.Name) and n.value.id in fresh_in_loop:
                        continue       # a per-iteration fresh object cannot alias anything that existed before
                    fields.add(n.attr)
                elif isinstance(n, ast.Call):
                    fn_ = n.func.id if isinstance(n.func, ast.Name) else n.func.attr if isinstance(n.func, ast.Attribute) else None
                    pure = (isinstance(n.func, ast.Name) and fn_ in PURE_FUNCS) or (isinstance(n.func, ast.Attribute) and fn_ in PURE_METHODS)
                    if not pure:
                        for a in n.args:
                            if isinstance(a, ast.Name):
                                callobjs.add(a.id)
        # names assigned a fresh object in the loop but also assigned otherwise are not reliably fresh
        for n in names:
            st.vars[n] = Unk(fresh('loop.' + n))
            st.tri.pop(n, None)
            for k in [k for k in st.tri if k.startswith('(') and _mentions(k, n) or k.startswith(n + '.')]:
                del st.tri[k]
        for k in list(st.heap):
            if k[1] in fields and k[0] not in st.fresh_objs:
                st.heap[k] = Unk(fresh('loop.%s' % k[1]))
            elif k[1] in fields and k[0] in st.fresh_objs:
                # a fresh object created before the loop can only be written through its own names
                st.heap[k] = Unk(fresh('loop.%s' % k[1])) if self._named_in(stmts, st, k[0]) else st.heap[k]
        for nm in callobjs:
            if nm in st.vars and isinstance(st.vars[nm], (ObjRef, Unk)):
                oid = as_obj(st.vars[nm]).id
                for k in list(st.heap):
                    if k[0] == oid:
                        st.heap[k] = Unk(fresh('loop.%s' % k[1]))

    def _named_in(self, stmts, st, oid):
        nms = {n for n, v in st.vars.items() if isinstance(v, (ObjRef, Unk)) and as_obj(v).id == oid}
        for s in stmts:
            for n in ast.walk(s):
                if isinstance(n, ast.Name) and n.id in nms:
                    return True
        return False

    def loop(self, s, st):
        body = list(s.body)
        # objects written before the loop and touched inside are judged at loop entry
        pre_written = {o: set(f) for o, f in st.written.items()}
        if isinstance(s, ast.For):
            self.ev(st, s.iter)
        head = st.copy()
        self.havoc_assigned(head, body + list(s.orelse))
        it = head.copy()
        it.written = {}
        if isinstance(s, ast.For):
            elem = Unk(fresh('iter'))
            et = self.iter_elem_class(st, s.iter)
            if et:
                it.objcls[elem.id] = et
            self.assign(it, s.target, elem, s)
            if isinstance(s.iter, ast.Call) and isinstance(s.iter.func, ast.Name) and s.iter.func.id == 'enumerate' \
                    and isinstance(s.target, ast.Tuple) and len(s.target.elts) == 2:
                pass
        else:
            self.ev(it, s.test)
        outs = self.block(body, it)
        for (x, status, node) in outs:
            if status in ('fall', 'continue', 'break'):
                self.checkpoint_all(x, node or s, 'iteration-end')
        after = head
        after.written = pre_written
        res = [(after, 'fall', None)]
        for (x, status, node) in outs:
            if status == 'return':
                res.append((x, status, node))
        if s.orelse:
            res2 = []
            for (x, status, node) in res:
                if status == 'fall':
                    res2 += self.block(s.orelse, x)
                else:
                    res2.append((x, status, node))
            res = res2
        return res

    def iter_elem_class(self, st, it):
        # for x in <param annotated List[C]> / <call result of known method> : element class C
        if isinstance(it, ast.Name):
            v = st.vars.get(it.id)
            if isinstance(v, (Unk, ObjRef)):
                c = st.objcls.get(as_obj(v).id)
                if c and c.startswith('List['):
                    return c[5:-1]
        return None


def _names(e):
    return {n.id for n in ast.walk(e) if isinstance(n, ast.Name)}


def _call_free(e):
    return not any(isinstance(n, (ast.Call, ast.Subscript, ast.Lambda, ast.IfExp)) for n in ast.walk(e))


def _mentions(key, text):
    import re
    return re.search(r'(?<![\w.])' + re.escape(text) + r'(?![\w])', key) is not None


def _plain_chain(e):
    while isinstance(e, ast.Attribute):
        e = e.value
    return isinstance(e, ast.Name)


def _rootname(e):
    while isinstance(e, (ast.Attribute, ast.Subscript)):
        e = e.value
    return e.id if isinstance(e, ast.Name) else None


def vkey(v):
    if isinstance(v, Lin):
        return ('L',) + v.key()
    if isinstance(v, SStr):
        return ('S',) + v.key()
    if isinstance(v, (Unk, ObjRef)):
        return ('U', repr(v.id))
    if isinstance(v, TupleVal):
        return ('T',) + tuple(vkey(x) for x in v.items)
    return ('?', repr(v))


def ann_class(a):
    if a is None:
        return None
    if isinstance(a, ast.Name):
        return a.id
    if isinstance(a, ast.Constant) and isinstance(a.value, str):
        return a.value
    if isinstance(a, ast.Subscript) and isinstance(a.value, ast.Name) and a.value.id in ('List', 'Optional', 'list'):
        inner = ann_class(a.slice)
        if inner:
            return ('List[%s]' % inner) if a.value.id in ('List', 'list') else inner
    if isinstance(a, ast.Attribute):
        return a.attr
    return None


def _load(t):
    import copy
    t2 = copy.deepcopy(t)
    for n in ast.walk(t2):
        if hasattr(n, 'ctx'):
            n.ctx = ast.Load()
    return t2


def _short(e):
    s = ast.unparse(e)
    return s if len(s) < 60 else s[:57] + '...'


# ------------------------------------------------------------------------------------------------ facts from classes

def facts_from_index(idx, mod, class_names):
    """derive constructor field maps and linear property expansions for the span-carrying classes,
    as the names resolve inside module `mod` (Token means different classes in different packages)"""
    f = Facts()
    for cn in class_names:
        r = idx.resolve(mod, cn)
        if r and r[0] == 'class':
            _class_facts(idx, r[1], f)
        elif len(idx.classes_by_name.get(cn, [])) == 1:
            _class_facts(idx, idx.classes_by_name[cn][0], f)
    return f


def _self_field(e):
    if isinstance(e, ast.Attribute) and isinstance(e.value, ast.Name) and e.value.id == 'self':
        return e.attr.lstrip('_') if e.attr.startswith('_') else e.attr
    return None


def _norm_field(cname, attr):
    # name-mangled private fields self.__x -> x ; self._x -> x
    a = attr
    if a.startswith('_' + cname + '__'):
        a = a[len(cname) + 3:]
    return a.lstrip('_')


def _class_facts(idx, c, f):
    ctor = []
    seen = set()
    for k in reversed(idx.mro(c)):
        init = k.methods.get('__init__')
        if init is None:
            continue
        params = [a.arg for a in init.args.args][1:]
        defaults = init.args.defaults
        dmap = {}
        for p, d in zip(params[len(params) - len(defaults):], defaults):
            dmap[p] = d
        if k is not c and not any(isinstance(n, ast.Call) and isinstance(n.func, ast.Attribute) and n.func.attr == '__init__'
                                  for n in ast.walk(c.methods.get('__init__', ast.Pass()))) and '__init__' in c.methods:
            continue
        for st in ast.walk(init):
            tgt = val = None
            if isinstance(st, ast.Assign) and len(st.targets) == 1:
                tgt, val = st.targets[0], st.value
            elif isinstance(st, ast.AnnAssign) and st.value is not None:
                tgt, val = st.target, st.value
            if tgt is None or not (isinstance(tgt, ast.Attribute) and isinstance(tgt.value, ast.Name) and tgt.value.id == 'self'):
                continue
            fld = _norm_field(k.name, tgt.attr)
            if fld not in ('start', 'length', 'text', 'end'):
                continue
            src = None
            if isinstance(val, ast.Constant):
                if isinstance(val.value, bool) or val.value is None:
                    src = ('const', Unk(('const', repr(val.value))))
                elif isinstance(val.value, int):
                    src = ('const', Lin(val.value))
                elif isinstance(val.value, str):
                    src = ('const', SStr('lit', value=val.value))
            elif isinstance(val, ast.Name) and val.id in params and k is c:
                d = dmap.get(val.id)
                dv = None
                if isinstance(d, ast.Constant) and isinstance(d.value, int) and not isinstance(d.value, bool):
                    dv = Lin(d.value)
                src = ('arg', params.index(val.id), val.id) + ((dv,) if dv is not None else ())
            elif isinstance(val, ast.Attribute) and isinstance(val.value, ast.Name) and val.value.id in params and k is c:
                # self.start = source.start (conditional copy constructor): last assignment wins when the arg is given
                src = ('copyarg', params.index(val.value.id), val.value.id, val.attr)
                prev = [x for x in ctor if x[0] == fld]
                if prev and prev[-1][1][0] == 'const':
                    src = src + (prev[-1][1][1],)
            if src is not None:
                ctor = [x for x in ctor if x[0] != fld] + [(fld, src)]
    f.ctors[c.name] = ctor
    # properties: return <linear over self fields>
    for k in idx.mro(c):
        for name, fn in k.methods.items():
            if '#' in name or not any(isinstance(d, ast.Name) and d.id == 'property' for d in fn.decorator_list):
                continue
            if (c.name, name) in f.props:
                continue
            rets = [n.value for n in ast.walk(fn) if isinstance(n, ast.Return) and n.value is not None]
            nonconst = [r for r in rets if not isinstance(r, ast.Constant)]
            if len(nonconst) != 1:
                continue
            expr = nonconst[0]
            if isinstance(expr, ast.Attribute) and _self_field(expr) and _norm_field(k.name, expr.attr) == name:
                continue      # plain accessor of its own backing field
            lin = _lin_over_self(expr, k.name)
            if lin is not None:
                f.props[(c.name, name)] = (lambda getf, lin=lin: _inst(lin, getf))


def _lin_over_self(e, cname):
    """expression -> list of (coef, fieldname|None(const))"""
    if isinstance(e, ast.Constant) and isinstance(e.value, int) and not isinstance(e.value, bool):
        return [(e.value, None)]
    if isinstance(e, ast.Attribute) and isinstance(e.value, ast.Name) and e.value.id == 'self':
        return [(1, _norm_field(cname, e.attr))]
    if isinstance(e, ast.BinOp) and isinstance(e.op, (ast.Add, ast.Sub)):
        a = _lin_over_self(e.left, cname)
        b = _lin_over_self(e.right, cname)
        if a is None or b is None:
            return None
        if isinstance(e.op, ast.Sub):
            b = [(-c, f) for c, f in b]
        return a + b
    return None


def _inst(lin, getf):
    tot = Lin(0)
    for c, f in lin:
        tot = tot + (Lin(c) if f is None else getf(f).scale(c))
    return tot
