"""Statement-level inlining of small helpers (syntax tree to syntax tree; nothing is executed).

Several path rules (C01.span, C01.modpair) walk one function at a time and treat a call as opaque.  A statement that is only a
call `self.h(a, b)` / `Cls.h(a, b)` / `h(a, b)` of a helper whose body is straight-line field/name assignment (possibly under
`if`) is replaced by the helper's body with the parameters substituted by the argument expressions and the helper's own locals
renamed, so that "three statements moved into a private method" is read exactly like the three statements.  The helper must

  * resolve uniquely (method of the class through its MRO and overridden by no subclass, or a function of the module),
  * consist of Assign / AugAssign / AnnAssign / If / Pass / docstring / a trailing bare `return` only,
  * not assign to its parameters, use no *args/**kwargs, and be called with side-effect-free arguments (names, attribute chains,
    constants), positionally or by keyword.

An assignment `T = self.h(a)` / `x, y = self.h(a)` (also a `return self.h(a)` is NOT handled) whose helper consists of simple
statements, guard clauses of the form `if c: return E` and a final `return E` is expanded the same way: the returns become
assignments to T in an if/else cascade.

Anything else is left as the call it is (and the walking rule treats it as it always did).
"""
import ast
import copy

SIMPLE = (ast.Assign, ast.AugAssign, ast.AnnAssign, ast.If, ast.Pass)
MAX_STMTS = 16


def _pure_arg(e):
    if isinstance(e, (ast.Name, ast.Constant)):
        return True
    if isinstance(e, ast.Attribute):
        return _pure_arg(e.value)
    return False


def _simple_body(body):
    n = 0
    for i, st in enumerate(body):
        if isinstance(st, ast.Expr) and isinstance(st.value, ast.Constant) and isinstance(st.value.value, str):
            continue
        if isinstance(st, ast.Return) and st.value is None and i == len(body) - 1:
            continue
        if not isinstance(st, SIMPLE):
            return None
        if isinstance(st, ast.If):
            a, b = _simple_body(st.body), _simple_body(st.orelse)
            if a is None or b is None:
                return None
            n += a + b
        n += 1
    return n


def _is_static(fn):
    return any(isinstance(d, ast.Name) and d.id == 'staticmethod' for d in fn.decorator_list)


def _is_plain(fn):
    return all(isinstance(d, ast.Name) and d.id == 'staticmethod' for d in fn.decorator_list)


def resolve_helper(idx, mod, cls, call):
    """-> (FunctionDef, binds_self) or None"""
    f = call.func
    if isinstance(f, ast.Attribute) and isinstance(f.value, ast.Name) and cls is not None:
        owner = None
        if f.value.id == 'self':
            owner = cls
        else:
            c2 = idx.resolve_class(mod, f.value)
            if c2 is not None and c2 in idx.mro(cls):
                owner = cls if c2 is cls else c2
        if owner is None:
            return None
        k, fn = idx.find_method(owner, f.attr)
        if fn is None or not isinstance(fn, ast.FunctionDef) or not _is_plain(fn):
            return None
        for sub in idx.subclasses(cls):
            if sub is not cls and f.attr in sub.methods:
                return None
        if _is_static(fn):
            return fn, False
        if f.value.id != 'self':
            return None
        return fn, True
    if isinstance(f, ast.Name):
        fn = mod.funcs.get(f.id)
        if isinstance(fn, ast.FunctionDef) and not fn.decorator_list:
            return fn, False
    return None


class _Subst(ast.NodeTransformer):
    def __init__(self, mapping, rename):
        self.mapping, self.rename = mapping, rename

    def visit_Name(self, n):
        if n.id in self.mapping and isinstance(n.ctx, ast.Load):
            return copy.deepcopy(self.mapping[n.id])
        if n.id in self.rename:
            return ast.copy_location(ast.Name(id=self.rename[n.id], ctx=n.ctx), n)
        return n


def expand_call(idx, mod, cls, call, serial):
    """list of statements equivalent to the statement-call, or None"""
    r = resolve_helper(idx, mod, cls, call)
    if r is None:
        return None
    fn, binds_self = r
    a = fn.args
    if a.vararg or a.kwarg or a.posonlyargs or a.kwonlyargs:
        return None
    size = _simple_body(fn.body)
    if size is None or size > MAX_STMTS:
        return None
    params = [p.arg for p in a.args]
    if binds_self:
        if not params:
            return None
        params = params[1:]
    if any(isinstance(x, ast.Starred) for x in call.args) or any(k.arg is None for k in call.keywords):
        return None
    if len(call.args) > len(params):
        return None
    mapping = {}
    for p, e in zip(params, call.args):
        mapping[p] = e
    for k in call.keywords:
        if k.arg not in params or k.arg in mapping:
            return None
        mapping[k.arg] = k.value
    defaults = dict(zip([p.arg for p in a.args][len(a.args) - len(a.defaults):], a.defaults))
    for p in params:
        if p not in mapping:
            if p not in defaults or not isinstance(defaults[p], ast.Constant):
                return None
            mapping[p] = defaults[p]
    if not all(_pure_arg(e) for e in mapping.values()):
        return None
    stored = {n.id for st in fn.body for n in ast.walk(st) if isinstance(n, ast.Name) and isinstance(n.ctx, (ast.Store, ast.Del))}
    if stored & set(mapping):
        return None
    if any(isinstance(n, (ast.Lambda, ast.ListComp, ast.SetComp, ast.DictComp, ast.GeneratorExp, ast.NamedExpr, ast.Yield,
                          ast.YieldFrom, ast.Await))
           for st in fn.body for n in ast.walk(st)):
        return None
    rename = {n: '__inl%d_%s' % (serial, n) for n in stored}
    out = []
    for st in fn.body:
        if isinstance(st, ast.Expr) or isinstance(st, ast.Return):
            continue
        st2 = _Subst(mapping, rename).visit(copy.deepcopy(st))
        for n in ast.walk(st2):
            if hasattr(n, 'lineno'):
                n.lineno = call.lineno
                n.end_lineno = getattr(call, 'end_lineno', call.lineno)
        out.append(st2)
    return out or [ast.copy_location(ast.Pass(), call)]


def _value_body(body):
    """True when body is: simple statements / guard `if c: [simple...] return E` clauses ..., ending in `return E`"""
    if not body or not isinstance(body[-1], ast.Return) or body[-1].value is None:
        return False
    for st in body[:-1]:
        if isinstance(st, ast.Expr) and isinstance(st.value, ast.Constant):
            continue
        if isinstance(st, (ast.Assign, ast.AugAssign, ast.AnnAssign, ast.Pass)):
            continue
        if isinstance(st, ast.If) and not st.orelse and st.body and isinstance(st.body[-1], ast.Return) \
                and st.body[-1].value is not None \
                and all(isinstance(x, (ast.Assign, ast.AugAssign, ast.AnnAssign, ast.Pass)) for x in st.body[:-1]):
            continue
        return False
    return True


def _cascade(body, target):
    """statements equivalent to running body and assigning its return value to `target` (body satisfies _value_body)"""
    out = []
    for i, st in enumerate(body):
        if isinstance(st, ast.Expr):
            continue
        if isinstance(st, ast.Return):
            out.append(ast.Assign(targets=[copy.deepcopy(target)], value=st.value, lineno=st.lineno, col_offset=0))
            return out
        if isinstance(st, ast.If):
            then = list(st.body[:-1]) + [ast.Assign(targets=[copy.deepcopy(target)], value=st.body[-1].value,
                                                     lineno=st.lineno, col_offset=0)]
            rest = _cascade(body[i + 1:], target)
            out.append(ast.If(test=st.test, body=then, orelse=rest, lineno=st.lineno, col_offset=0))
            return out
        out.append(st)
    return out


def expand_assign_call(idx, mod, cls, st, serial):
    """`T = helper(...)` -> statements, or None"""
    if not (isinstance(st, ast.Assign) and len(st.targets) == 1 and isinstance(st.value, ast.Call)):
        return None
    tgt = st.targets[0]
    if not (isinstance(tgt, ast.Name) or (isinstance(tgt, (ast.Tuple, ast.List)) and all(isinstance(e, ast.Name) for e in tgt.elts))):
        return None
    call = st.value
    r = resolve_helper(idx, mod, cls, call)
    if r is None:
        return None
    fn, binds_self = r
    a = fn.args
    if a.vararg or a.kwarg or a.posonlyargs or a.kwonlyargs or not _value_body(fn.body):
        return None
    if sum(1 for _ in ast.walk(fn)) > 400:
        return None
    params = [p.arg for p in a.args]
    if binds_self:
        if not params:
            return None
        params = params[1:]
    if any(isinstance(x, ast.Starred) for x in call.args) or any(k.arg is None for k in call.keywords) \
            or len(call.args) > len(params):
        return None
    mapping = dict(zip(params, call.args))
    for k in call.keywords:
        if k.arg not in params or k.arg in mapping:
            return None
        mapping[k.arg] = k.value
    defaults = dict(zip([p.arg for p in a.args][len(a.args) - len(a.defaults):], a.defaults))
    for prm in params:
        if prm not in mapping:
            if prm not in defaults or not isinstance(defaults[prm], ast.Constant):
                return None
            mapping[prm] = defaults[prm]
    if not all(_pure_arg(e) for e in mapping.values()):
        return None
    stored = {n.id for x in fn.body for n in ast.walk(x) if isinstance(n, ast.Name) and isinstance(n.ctx, (ast.Store, ast.Del))}
    if stored & set(mapping):
        return None
    if any(isinstance(n, (ast.Lambda, ast.ListComp, ast.SetComp, ast.DictComp, ast.GeneratorExp, ast.NamedExpr, ast.Yield,
                          ast.YieldFrom, ast.Await)) for x in fn.body for n in ast.walk(x)):
        return None
    tnames = {tgt.id} if isinstance(tgt, ast.Name) else {e.id for e in tgt.elts}
    if tnames & (stored | {n.id for e in mapping.values() for n in ast.walk(e) if isinstance(n, ast.Name)}):
        return None         # the target is read by an argument or is a helper local: keep the call
    rename = {n: '__inl%d_%s' % (serial, n) for n in stored}
    cas = _cascade([copy.deepcopy(x) for x in fn.body], tgt)
    out = []
    for x in cas:
        # the assignment targets introduced by the cascade must not be renamed / substituted
        x2 = _SubstKeep(mapping, rename, tnames).visit(x)
        for n in ast.walk(x2):
            if hasattr(n, 'lineno'):
                n.lineno = st.lineno
                n.end_lineno = getattr(st, 'end_lineno', st.lineno)
        ast.fix_missing_locations(x2)
        out.append(x2)
    return out


class _SubstKeep(_Subst):
    def __init__(self, mapping, rename, keep):
        _Subst.__init__(self, mapping, rename)
        self.keep = keep

    def visit_Name(self, n):
        if n.id in self.keep and isinstance(n.ctx, ast.Store):
            return n
        return _Subst.visit_Name(self, n)


def inline_helpers(idx, mod, cls, fn):
    """-> (FunctionDef with statement-calls of small helpers expanded, [names of helpers expanded]).  fn itself is untouched;
    when nothing is expanded fn is returned as is."""
    done = []

    def block(stmts):
        out, changed = [], False
        for st in stmts:
            if isinstance(st, ast.Expr) and isinstance(st.value, ast.Call):
                rep = expand_call(idx, mod, cls, st.value, len(done))
                if rep is not None:
                    done.append(ast.unparse(st.value.func))
                    out.extend(rep)
                    changed = True
                    continue
            if isinstance(st, ast.Assign) and isinstance(st.value, ast.Call):
                rep = expand_assign_call(idx, mod, cls, st, len(done))
                if rep is not None:
                    done.append(ast.unparse(st.value.func))
                    out.extend(rep)
                    changed = True
                    continue
            new = st
            for field in ('body', 'orelse', 'finalbody'):
                sub = getattr(st, field, None)
                if isinstance(sub, list) and sub and isinstance(sub[0], ast.stmt):
                    rep, ch = block(sub)
                    if ch:
                        if new is st:
                            new = copy.copy(st)
                        setattr(new, field, rep)
                        changed = True
            if isinstance(st, ast.Try) and st.handlers:
                hs, chh = [], False
                for h in st.handlers:
                    rep, ch = block(h.body)
                    if ch:
                        h2 = copy.copy(h)
                        h2.body = rep
                        hs.append(h2)
                        chh = True
                    else:
                        hs.append(h)
                if chh:
                    if new is st:
                        new = copy.copy(st)
                    new.handlers = hs
                    changed = True
            out.append(new)
        return out, changed

    if isinstance(fn, (ast.FunctionDef,)):
        body, ch = block(fn.body)
        if ch:
            fn2 = copy.copy(fn)
            fn2.body = body
            return fn2, done
    return fn, done


# ---------------------------------------------------------------------------------------------------------------
# Registration blocks.  The recognisers' initialize_configuration methods are read by several properties as a list of
# `self.register_model('Name', Culture.X, lambda options: Model(...))` statements.  A maintainer may write the same list as a
# table of rows plus a loop, and move the three registrations of a language into a helper method.  normalise_registrations
# turns that back into the flat list, syntax tree to syntax tree (nothing is executed):
#   * `for T in TABLE:` over a literal list / tuple of rows (given inline or through a local bound exactly once to the literal)
#     is unrolled, the loop variables replaced by the row's element expressions (a starred `*row` argument is spliced);
#   * a statement-call `self.h(...)` of a method of the same class whose body consists of statement-calls only is replaced by
#     that body with the parameters replaced by the argument expressions (also inside lambdas - by-name, which is what a
#     reader of "which classes does this constructor build" needs);
#   * `(lambda: E)()` is replaced by E.

class _SubstAny(ast.NodeTransformer):
    def __init__(self, mapping, inner_mapping=None):
        self.mapping = mapping
        # what a lambda / nested def in the substituted code sees: a helper's parameters are bound per call (same mapping), a
        # loop variable is looked up when the lambda RUNS - after the loop, i.e. with the value of the last iteration
        self.inner = mapping if inner_mapping is None else inner_mapping

    def visit_Lambda(self, n):
        return _SubstAny(self.inner, self.inner).generic_visit(n)

    def visit_FunctionDef(self, n):
        return _SubstAny(self.inner, self.inner).generic_visit(n)

    def visit_Name(self, n):
        if n.id in self.mapping and isinstance(n.ctx, ast.Load):
            return copy.deepcopy(self.mapping[n.id])
        return n

    def visit_Call(self, n):
        self.generic_visit(n)
        args = []
        for a in n.args:
            if isinstance(a, ast.Starred) and isinstance(a.value, (ast.Tuple, ast.List)):
                args.extend(a.value.elts)
            else:
                args.append(a)
        n.args = args
        if isinstance(n.func, ast.Lambda) and not n.args and not n.keywords and not n.func.args.args \
                and not n.func.args.vararg and not n.func.args.kwarg and not n.func.args.kwonlyargs:
            return n.func.body
        return n


def _only_calls(body):
    return all((isinstance(st, ast.Expr) and isinstance(st.value, (ast.Call, ast.Constant))) or isinstance(st, ast.Pass)
               for st in body)


def normalise_registrations(idx, mod, cls, fn, depth=0):
    """-> FunctionDef equivalent to fn for readers of its register_model statements (see above); fn itself when nothing applies"""
    literals = {}
    counts = {}
    for n in ast.walk(fn):
        if isinstance(n, ast.Assign) and len(n.targets) == 1 and isinstance(n.targets[0], ast.Name):
            counts[n.targets[0].id] = counts.get(n.targets[0].id, 0) + 1
            if isinstance(n.value, (ast.List, ast.Tuple)):
                literals[n.targets[0].id] = n.value
        elif isinstance(n, (ast.AugAssign, ast.For)) and isinstance(getattr(n, 'target', None), ast.Name):
            counts[n.target.id] = counts.get(n.target.id, 0) + 1
    literals = {k: v for k, v in literals.items() if counts.get(k) == 1}
    changed = [False]

    def expand_stmt(st):
        # unroll a loop over a literal table
        if isinstance(st, ast.For) and not st.orelse and _only_calls(st.body):
            it = st.iter
            if isinstance(it, ast.Name) and it.id in literals:
                it = literals[it.id]
            if isinstance(it, (ast.List, ast.Tuple)) and not any(isinstance(e, ast.Starred) for e in it.elts):
                out = []

                def row_mapping(row):
                    if isinstance(st.target, ast.Name):
                        return {st.target.id: row}
                    if isinstance(st.target, (ast.Tuple, ast.List)) and isinstance(row, (ast.Tuple, ast.List)) \
                            and len(row.elts) == len(st.target.elts) and all(isinstance(t, ast.Name) for t in st.target.elts):
                        return {t.id: e for t, e in zip(st.target.elts, row.elts)}
                    return None
                maps = [row_mapping(row) for row in it.elts]
                if not maps or any(m is None for m in maps):
                    return [st]
                for mapping in maps:
                    for b in st.body:
                        # a lambda written in the loop body reads the loop variable when it is called, i.e. after the loop:
                        # it sees the LAST row (Python's late binding), not the row of its own iteration
                        b2 = _SubstAny(mapping, maps[-1]).visit(copy.deepcopy(b))
                        out.extend(expand_stmt(b2))
                changed[0] = True
                return out
        # a statement-call of a same-class helper made of statement-calls
        if isinstance(st, ast.Expr) and isinstance(st.value, ast.Call) and depth < 3:
            call = st.value
            f = call.func
            if isinstance(f, ast.Attribute) and isinstance(f.value, ast.Name) and f.value.id == 'self' and cls is not None \
                    and f.attr != 'register_model':
                k, h = idx.find_method(cls, f.attr)
                if h is not None and isinstance(h, ast.FunctionDef) and not h.decorator_list and _only_calls(h.body) \
                        and not (h.args.vararg or h.args.kwarg or h.args.kwonlyargs or h.args.posonlyargs) \
                        and not any(isinstance(a, ast.Starred) for a in call.args) and not any(kw.arg is None for kw in call.keywords):
                    params = [p.arg for p in h.args.args][1:]
                    if len(call.args) <= len(params):
                        mapping = dict(zip(params, call.args))
                        ok = True
                        for kw in call.keywords:
                            if kw.arg not in params or kw.arg in mapping:
                                ok = False
                            mapping[kw.arg] = kw.value
                        defaults = dict(zip([p.arg for p in h.args.args][len(h.args.args) - len(h.args.defaults):], h.args.defaults))
                        for prm in params:
                            if prm not in mapping:
                                if prm in defaults:
                                    mapping[prm] = defaults[prm]
                                else:
                                    ok = False
                        if ok:
                            out = []
                            for b in h.body:
                                if isinstance(b, ast.Expr) and isinstance(b.value, ast.Constant):
                                    continue
                                b2 = _SubstAny(mapping).visit(copy.deepcopy(b))
                                out.extend(expand_stmt(b2))
                            changed[0] = True
                            return out
        return [st]
    body = []
    for st in fn.body:
        body.extend(expand_stmt(st))
    if not changed[0]:
        return fn
    fn2 = copy.copy(fn)
    fn2.body = body
    ast.fix_missing_locations(fn2)
    return fn2
