"""Span-coherence judgement on top of E5 (used by C01 and C16)."""
import ast

from .symx import Lin, SStr, Unk, ObjRef, TupleVal, Walker, as_lin, as_str, as_obj, slen, show_atom

SPAN_CLASSES = ['ExtractResult', 'ParseResult', 'DateTimeParseResult', 'ModelResult', 'DateTimeModelResult',
                'MatchResult', 'Token', 'TimeZoneResolutionResult']


def init_atom(oid, f):
    return Lin.atom(('fld', oid, f))


def judge_text(w, st, t, s, l, depth=0, oid=None):
    """is text value t coherent with start s and length l (Lin)?  -> (verdict, why)
    verdict: ok | incoherent | unproven"""
    k = t.kind
    if k == 'ite':
        worst = ('ok', '')
        for alt in t.alts:
            v = judge_text(w, st, alt, s, l, depth + 1, oid)
            if v[0] == 'incoherent':
                return v
            if v[0] == 'unproven':
                worst = v
        return worst
    if k == 'xform':
        return ('incoherent', 'text passes through the non-length-preserving transformer .%s(): %r' % (t.value, t))
    if k == 'otext':
        s0, l0 = init_atom(t.obj, 'start'), init_atom(t.obj, 'length')
        cls = st.objcls.get(t.obj)
        if cls and (cls, 'length') in w.facts.props:
            l0 = w.facts.props[(cls, 'length')](lambda f: init_atom(t.obj, f))
        if s == s0 and l == l0:
            return ('ok', 'copy of %s' % show_atom(t.obj))
        return ('incoherent', 'text is %s.text (start %r, length %r) but start=%r length=%r'
                % (show_atom(t.obj), s0, l0, s, l))
    if k == 'slice':
        base = t.base
        if base.kind == 'base':
            a, b = t.a, t.b
            if b is None:
                b = slen(base, w.facts)
            if a == s and b == s + l:
                return ('ok', 'slice of %r' % base)
            # slice of a sub-string that starts `bias` characters into the query: S[start - bias : start - bias + length]
            d = s - a
            if b is not None and len(d.t) == 1 and d.c == 0 and list(d.t.values()) == [1] and b - a == l:
                atom = list(d.t)[0]
                if isinstance(atom, tuple) and atom[0] == 'var':
                    return ('ok', 'slice of %r relative to the bias %s' % (base, show_atom(atom)))
            return ('incoherent', 'text is %r[%r:%r] but start=%r, start+length=%r' % (base, a, b, s, s + l))
        if base.kind == 'otext':
            o2 = base.obj
            s0, l0 = init_atom(o2, 'start'), init_atom(o2, 'length')
            a = t.a
            b = t.b if t.b is not None else l0
            if s == s0 + a and l == b - a:
                return ('ok', 'sub-slice of %s.text' % show_atom(o2))
            return ('incoherent', 'text is %s.text[%r:%r] (entity at %r) but start=%r length=%r'
                    % (show_atom(o2), a, b, s0, s, l))
        return ('unproven', 'slice of %s' % base.kind)
    if k == 'group':
        ms, me = Lin.atom(('mstart', t.m, t.g)), Lin.atom(('mend', t.m, t.g))
        if s == ms and l == me - ms:
            return ('ok', 'match group')
        return ('incoherent', 'text is %r but start=%r length=%r' % (t, s, l))
    if k == 'concat':
        spanny = [i for i, p in enumerate(t.parts) if p.kind in ('otext', 'slice', 'ite')]
        own = [i for i in spanny if t.parts[i].kind == 'otext' and t.parts[i].obj == oid]
        if len(own) == 1:
            ci = own[0]
        elif len(spanny) == 1:
            ci = spanny[0]
        elif not spanny and len([p for p in t.parts if p.kind == 'group']) == 1:
            ci = [i for i, p in enumerate(t.parts) if p.kind == 'group'][0]
        else:
            return ('unproven', 'concatenation without a single span-bearing part: %r' % t)
        pre = Lin(0)
        post = Lin(0)
        for i, p in enumerate(t.parts):
            if i == ci:
                continue
            if p.kind == 'otext':
                # another entity's text used as affix: it must be shown to stand directly next to this one (ADJACENT is filled
                # by the caller from the function's filters: `[m for m in ms if m.start == start + length]`)
                if p.obj != oid and not (set(names_of(st, p.obj)) & ADJACENT):
                    return ('incoherent', 'the text grows by the text of another entity (%s) that is not shown to stand directly '
                                          'next to it (no `other.start == start + length` filter or test): characters in between '
                                          'are dropped from text while the length only grows by the other entity\'s length'
                            % (', '.join(names_of(st, p.obj)) or show_atom(p.obj)))
                pl = init_atom(p.obj, 'length')      # an adjacent entity used as affix: its own length
            else:
                pl = slen(p, w.facts)
            if pl is None:
                return ('unproven', 'affix of unknown length: %r' % p)
            if i < ci:
                pre = pre + pl
            else:
                post = post + pl
        v = judge_text(w, st, t.parts[ci], s + pre, l - pre - post, depth + 1, oid)
        if v[0] == 'ok':
            return ('ok', 'affix-extended ' + v[1])
        return (v[0], 'text is %r; %s' % (t, v[1]))
    if k == 'base':
        # the whole string: coherent with start 0 and its own length
        if s == Lin(0) and l == slen(t, w.facts):
            return ('ok', 'whole string')
    if k == 'lit' and t.value == '':
        return ('unproven', 'text never set')
    return ('unproven', 'opaque text %r' % t)


ADJACENT = set()     # names of entities proven adjacent in the function being analysed (set by the caller)


def names_of(st, oid):
    out = []
    for n, v in st.vars.items():
        if isinstance(v, (ObjRef, Unk)) and as_obj(v).id == oid:
            out.append(n)
    return sorted(out)


def label_of(st, oid):
    ns = names_of(st, oid)
    if ns:
        return ns[0]
    return strip_ids(show_atom(oid))


def strip_ids(text):
    import re
    return re.sub(r'#\d+', '', text)
