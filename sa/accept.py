"""Maintainer tool (never run by a check): list the currently unlisted violations of a property as
known findings after they were triaged by hand.   python -m sa.accept <Cnn> [rule-prefix] [--note text]"""
import importlib
import io
import json
import os
import sys
import contextlib

from . import core


def main(argv):
    pid = argv[0].upper()
    prefix = argv[1] if len(argv) > 1 and not argv[1].startswith('--') else ''
    note = argv[argv.index('--note') + 1] if '--note' in argv else ''
    mod = importlib.import_module('sa.props.' + pid.lower())
    chk = core.Check(pid, 'quick', getattr(mod, 'LEVEL', 'other'))
    mod.run(chk)
    known = core.load_known()
    data = {'findings': []}
    if os.path.exists(core.KNOWN_FILE):
        data = json.load(open(core.KNOWN_FILE))
    n = 0
    seen = set()
    for v in chk.insts:
        if v.verdict != 'violation' or not v.rule.startswith(prefix):
            continue
        k = (pid, v.rule, v.file, v.construct, v.key)
        if k in known or k in seen:
            continue
        seen.add(k)
        data['findings'].append({'property': pid, 'rule': v.rule, 'file': v.file, 'construct': v.construct,
                                 'key': v.key, 'detail': v.detail, 'what': v.msg, 'status': 'known',
                                 'note': note})
        n += 1
    with open(core.KNOWN_FILE, 'w') as f:
        json.dump(data, f, indent=1, ensure_ascii=False)
        f.write('\n')
    print('added %d finding(s)' % n)


if __name__ == '__main__':
    main(sys.argv[1:])
