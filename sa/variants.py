"""E9 - variant self-test (thorough tier): every rule family is exercised against recorded single edits of the
consulted sources - breaking ones must be reported (exit 1) and behaviour-preserving twins must stay silent (exit 0).

sa/variants/cNN.json : {"property": "Cnn", "variants": [
    {"name": "...", "kind": "breaking" | "benign", "edits": [{"file": "Python/libraries/...", "old": "...", "new": "..."}],
     "expect_rule": "Cnn.rule" (optional)} ...]}

A variant is applied to a symlink overlay of /repo (Python/, plus Patterns/ and Specs/ when the property reads them)
under $TMPDIR, outside /repo and /verif, removed in a finally.  An edit whose `old` text no longer occurs is reported
as stale (the variant file needs maintenance), not as a failure of the checker."""
import concurrent.futures
import json
import os
import py_compile
import shutil
import subprocess
import tempfile

from .core import REPO, VERIF

NEEDS = {'C18': ['Python', 'Patterns'], 'C19': ['Python', 'Specs'], 'C11': ['Python', 'Specs']}


def _overlay(dst, parts, edited):
    """sparse overlay: directories without an edited file below them are symlinked whole"""
    edited = [os.path.normpath(e) for e in edited]

    def build(rel):
        src = os.path.join(REPO, rel)
        tgt = os.path.join(dst, rel)
        if not any(e == rel or e.startswith(rel + os.sep) for e in edited):
            os.symlink(src, tgt)
            return
        if os.path.isdir(src):
            os.mkdir(tgt)
            for name in os.listdir(src):
                if name == '__pycache__':
                    continue
                build(os.path.join(rel, name))
        else:
            os.symlink(src, tgt)
    for part in parts:
        build(part)


def run_variant(pid, v):
    tmp = tempfile.mkdtemp(prefix='recognizers-verif-variant-')
    try:
        _overlay(tmp, NEEDS.get(pid, ['Python']), [e['file'] for e in v['edits']])
        for e in v['edits']:
            p = os.path.join(tmp, e['file'])
            if not os.path.exists(p):
                return v['name'], 'stale', 'file missing: ' + e['file']
            s = open(p, encoding='utf-8', newline='').read()
            old, new = e['old'], e['new']
            if '\r\n' in s:
                old = old.replace('\r\n', '\n').replace('\n', '\r\n')
                new = new.replace('\r\n', '\n').replace('\n', '\r\n')
            if old not in s:
                return v['name'], 'stale', 'old text not found in ' + e['file']
            os.unlink(p)
            with open(p, 'w', encoding='utf-8', newline='') as f:
                f.write(s.replace(old, new, 1))
            if p.endswith('.py'):
                try:
                    py_compile.compile(p, doraise=True, cfile=os.path.join(tmp, '_c.pyc'))
                except Exception as ex:
                    return v['name'], 'stale', 'variant does not compile: %s' % ex
        env = dict(os.environ, VERIF_REPO=tmp, VERIF_VARIANT='1', VERIF_TIER='quick')
        r = subprocess.run([os.path.join(VERIF, 'check'), pid, '--tier', 'quick'], env=env, capture_output=True, text=True,
                           timeout=900)
        rules = sorted({l.split()[0] for l in r.stdout.splitlines() if l.startswith('  ' + pid + '.')})
        if v['kind'] == 'breaking':
            if r.returncode == 1:
                if v.get('expect_rule') and v['expect_rule'] not in rules:
                    return v['name'], 'ok', 'reported by %s (recorded: %s)' % (','.join(rules), v['expect_rule'])
                return v['name'], 'ok', 'reported by ' + ','.join(rules)
            if r.returncode == 2:
                return v['name'], 'closed', 'analysis error (fails closed): ' + ' '.join(
                    l for l in r.stdout.splitlines() if l.startswith('ANALYSIS-ERROR'))[:200]
            return v['name'], 'missed', 'breaking variant not reported'
        if r.returncode == 0:
            return v['name'], 'ok', 'silent'
        return v['name'], 'false-alarm', 'benign variant exit %d: %s' % (r.returncode, ' '.join(
            l.strip() for l in r.stdout.splitlines() if l.startswith(('  ' + pid, 'ANALYSIS')))[:300])
    except Exception as ex:
        return v['name'], 'error', repr(ex)[:200]
    finally:
        shutil.rmtree(tmp, ignore_errors=True)


def run_all(chk):
    path = os.path.join(VERIF, 'sa', 'variants', chk.pid.lower() + '.json')
    if not os.path.exists(path):
        return None
    spec = json.load(open(path))
    vs = spec['variants']
    res = []
    with concurrent.futures.ThreadPoolExecutor(max_workers=min(16, os.cpu_count() or 4)) as ex:
        for r in ex.map(lambda v: run_variant(chk.pid, v), vs):
            res.append(r)
    summary = {'variants': len(vs),
               'breaking': sum(1 for v in vs if v['kind'] == 'breaking'),
               'benign': sum(1 for v in vs if v['kind'] == 'benign'),
               'breaking_reported': sum(1 for (n, st, d), v in zip(res, vs) if v['kind'] == 'breaking' and st == 'ok'),
               'breaking_failed_closed': sum(1 for (n, st, d) in res if st == 'closed'),
               'benign_silent': sum(1 for (n, st, d), v in zip(res, vs) if v['kind'] == 'benign' and st == 'ok'),
               'stale': [n for n, st, d in res if st == 'stale'],
               'problems': ['%s: %s (%s)' % (n, st, d) for n, st, d in res if st in ('missed', 'false-alarm', 'error')],
               'results': ['%s: %s - %s' % (n, st, d) for n, st, d in res]}
    return summary
